"""C12 orchestration: generate + compile the schema corpus (fixed matrix plus
random schemas for the seed) with the working-tree plugin, run the
response-level engine, then a smoke pass of the behavioural engines over every
freshly generated type. Everything lands in evidence/C12.json."""
import json, os, shutil, sys, tempfile, time, hashlib


def known_classes(drv):
    """Known-finding classes listed for C12 (the Go side probes and reports them)."""
    p = os.path.join(drv.VERIF, "known_findings.json")
    try:
        kf = json.load(open(p))
    except (OSError, ValueError):
        return {}
    return {f["class"]: f for f in kf.get("findings", []) if f.get("property") == "C12"}


UNIT_CLASS = {"osint": "sint_oneof", "fdnames": "fd_name_collision", "shadow_user": "import_shadowed_by_local"}


def unit_class(name):
    if name.startswith("oname"):
        return "oneof_method_name"
    return UNIT_CLASS.get(name)


def run(drv, args, seed):
    t0 = time.time()
    tier = args.tier
    if args.replay:
        return replay(drv, args, seed)
    nrandom = 2 if tier == "quick" else 40
    known = known_classes(drv)
    avoid = ",".join(sorted(known))
    b = drv.Build(nrandom=nrandom, seed=seed).ensure(avoid=avoid)
    units = json.load(open(b.units))
    viols, known_lines, infra = [], [], []
    rdir = os.path.join(drv.VERIF, "replays", "C12")
    usable = 0
    for u in units:
        if u["plugin_ok"] and u["compile_ok"]:
            usable += 1
            continue
        what = ("plugin: " + u.get("plugin_err", "")) if not u["plugin_ok"] else ("generated code does not compile: " + u.get("compile_err", ""))
        cls = unit_class(u["name"])
        if cls in known and not u.get("random"):
            line = "KNOWN-FINDING: property=C12 %s class=%s unit=%s %s" % (known[cls]["id"], cls, u["name"], known[cls]["what"])
            if line not in known_lines:
                known_lines.append(line)
            continue
        os.makedirs(rdir, exist_ok=True)
        rp = os.path.join(rdir, "unit-%s-seed%d.json" % (u["name"].replace("/", "_"), seed))
        json.dump({"property": "C12", "sub": "unit", "args": {"unit": u["name"], "seed": str(seed), "nrandom": str(nrandom), "random": str(u.get("random", False))},
                   "bytes_hex": u["descriptor_hex"], "failure": what[:3000]}, open(rp, "w"), indent=1)
        viols.append(("VIOLATION property=C12 replay=%s" % rp, "  detail: schema unit %s (%s): %s" % (u["name"], ", ".join(u["labels"]), what[:600].replace("\n", " | "))))
    extra_env = {"VERIF_PLUGIN": b.plugin, "VERIF_UNITS": b.units, "VERIF_NRANDOM": str(nrandom), "VERIF_TESTBIN": b.test}
    # response-level engine
    results, outdir = drv.run_shards(b.test, "C12", tier, seed, drv.nshards_for("C12", tier), drv.timeout_for(tier), extra_env)
    v, k, i = drv.summarize(results, "C12")
    viols += v
    known_lines += [x for x in k if x not in known_lines]
    infra += i
    ev = drv.merge("C12", tier, seed, outdir, t0)
    shutil.rmtree(outdir, ignore_errors=True)
    # smoke pass over the freshly generated types
    smoke = {}
    senv = dict(extra_env, VERIF_SMOKE="1", VERIF_ONLY_FRESH="1")
    import concurrent.futures
    def one(eng):
        res, od = drv.run_shards(b.test, eng, tier, seed, 2, drv.timeout_for(tier), senv)
        try:
            sv, sk, si = drv.summarize(res, eng)
            sev = drv.merge(eng, tier, seed, od, t0)
            return eng, sv, sk, si, sev
        finally:
            shutil.rmtree(od, ignore_errors=True)
    with concurrent.futures.ThreadPoolExecutor(max_workers=6) as ex:
        for eng, sv, sk, si, sev in ex.map(one, drv.SMOKE_ENGINES):
            smoke[eng] = {"evaluations": sev["coverage"]["evaluations"], "distinct_nontrivial": sev["coverage"]["distinct_nontrivial"], "violations": len(sv)}
            ev["coverage"]["evaluations"] += sev["coverage"]["evaluations"]
            infra += si
            for ln, detail in sv:
                inner = ln.split("replay=", 1)[1].strip()
                os.makedirs(rdir, exist_ok=True)
                try:
                    case = json.load(open(inner))
                except (OSError, ValueError):
                    case = {"note": "inner replay unreadable: " + inner}
                h = hashlib.sha1(json.dumps(case, sort_keys=True).encode()).hexdigest()[:12]
                rp = os.path.join(rdir, "smoke-%s-seed%d-%s.json" % (eng.lower(), seed, h))
                json.dump({"property": "C12", "sub": "smoke", "args": {"engine": eng, "seed": str(seed), "nrandom": str(nrandom)}, "case": case,
                           "failure": detail.strip()}, open(rp, "w"), indent=1)
                viols.append(("VIOLATION property=C12 replay=%s" % rp, "  detail: smoke %s on a freshly generated type: %s" % (eng, detail.replace("  detail: ", "")[:600])))
            # known findings of other properties are reported by their own checks
    cov = ev["coverage"]
    cov["programs"] = len(units)
    cov["programs_usable"] = usable
    cov["random_schemas"] = nrandom
    cov["smoke_pass"] = smoke
    cov["units"] = [{"name": u["name"], "labels": u["labels"], "messages": len(u["messages"] or []), "plugin_ok": u["plugin_ok"], "compile_ok": u["compile_ok"]} for u in units]
    cov["samples"] = (cov.get("samples") or [])[:8] + [{"unit": u["name"], "messages": (u["messages"] or [])[:6], "descriptor_hex_prefix": u["descriptor_hex"][:160]} for u in units if u.get("random")][:4]
    return drv.finish("C12", ev, viols, known_lines, infra)


def replay(drv, args, seed):
    case = json.load(open(args.replay))
    sub = case.get("sub")
    a = case.get("args", {})
    nrandom = int(a.get("nrandom", "0") or 0)
    cseed = int(a.get("seed", seed))
    known = known_classes(drv)
    b = drv.Build(nrandom=nrandom, seed=cseed).ensure(avoid=",".join(sorted(known)))
    if sub == "unit":
        units = {u["name"]: u for u in json.load(open(b.units))}
        u = units.get(a["unit"])
        if u is None:
            print("INCONCLUSIVE: unit %s not generated for this seed" % a["unit"])
            return 2
        if u["plugin_ok"] and u["compile_ok"]:
            print("REPLAY-OK property=C12 unit %s generates and compiles" % a["unit"])
            return 0
        print("VIOLATION property=C12 replay=%s" % os.path.abspath(args.replay))
        print("  detail: " + (u.get("plugin_err") or u.get("compile_err") or "")[:800].replace("\n", " | "))
        return 1
    env = {"VERIF_PLUGIN": b.plugin, "VERIF_UNITS": b.units, "VERIF_NRANDOM": str(nrandom), "VERIF_ONLY_FRESH": "1"}
    if sub == "smoke":
        eng = a["engine"]
        tmp = tempfile.NamedTemporaryFile("w", suffix=".json", delete=False, dir=drv.SCRATCH)
        json.dump(case["case"], tmp)
        tmp.close()
        env["VERIF_REPLAY"] = tmp.name
        results, outdir = drv.run_shards(b.test, eng, "quick", cseed, 1, 900, env)
        os.unlink(tmp.name)
    else:
        env["VERIF_REPLAY"] = os.path.abspath(args.replay)
        results, outdir = drv.run_shards(b.test, "C12", "quick", cseed, 1, 900, env)
    shutil.rmtree(outdir, ignore_errors=True)
    v, k, i = drv.summarize(results, "C12")
    for rc, out in results:
        sys.stdout.write(out[-2000:])
    if v:
        print("VIOLATION property=C12 replay=%s" % os.path.abspath(args.replay))
        return 1
    return 2 if i else 0
