#!/usr/bin/env python3
"""Regenerates MANIFEST.json from the table below (keeps it schema-valid)."""
import json, os, subprocess, sys

HERE = os.path.dirname(os.path.abspath(__file__))

# id -> (technique, level text, level note, design ref)
CHECKS = {
 "C01": ("property-based round trip (rapid) with dynamicpb differential oracle",
         "Random well-typed values of every generated type (checked-in and freshly generated from the working-tree templates) are marshalled in both modes and decoded again; the result is read back with protoimpl's struct reflection, with the generated reflection and by re-decoding with dynamicpb, and must be bit-identical to the original. Search, not proof: tens of thousands of distinct values per run, boundary-biased.",
         "Trusts protobuf-go v1.34.0 dynamicpb/protoimpl reflection as the reference reader and writer; float32 signalling NaNs not generated.", "4/C01"),
 "C02": ("property-based differential (rapid): bytes == dynamicpb == independent spec encoder",
         "Deterministic bytes of the generated message are compared byte-for-byte with dynamicpb's deterministic bytes and with an independent encoder written from the ordering rules in the property, over the full kind x shape x tag-width x map-key matrix.",
         "Trusts dynamicpb's deterministic order as the reference; the spec encoder guards against a bug shared by reference and code.", "4/C02"),
 "C03": ("property-based differential decoding of generated record streams (rapid) + merge laws",
         "Well-typed record streams with arbitrary order, duplication, packed/unpacked alternatives, split runs, padded varints and partial map entries are decoded by the generated code and by dynamicpb and the states compared; decode(a||b) == merge and Merge-option laws are checked as metamorphic relations.",
         "Reference decoder = dynamicpb (reflection-driven slow path of protobuf-go v1.34.0). Sub-domains where statement and reference disagree are not generated and are counted.", "4/C03"),
 "C04": ("property-based (rapid): Size == len(Marshal) == reference size; MarshalAppend prefix canary",
         "For random values (including nil list elements, nil map values and oneof wrappers holding nil), modes, prefixes and spare capacities: proto.Size, len(Marshal), dynamicpb's size and the spec encoder's length agree, MarshalAppend leaves the prefix intact and appends exactly the encoding, direct ProtoMethods calls with flag combinations agree, nothing panics.",
         "Trusts dynamicpb size; nil-element cases are compared with the reference's treatment of an empty message.", "4/C04"),
 "C05": ("metamorphic property-based test over construction histories and repeated marshals (rapid)",
         "Equal values built through different histories (insertion orders with insert+delete churn, nil vs empty containers, reflection vs decode) are marshalled deterministically many times each; all outputs must be byte-identical and equal to the reference bytes. Go re-randomises map iteration per range, so repetition samples iteration orders.",
         "Iteration orders are sampled, not enumerated; maps of >= 8 entries make an accidental ordered iteration vanishingly unlikely.", "4/C05"),
 "C06": ("structure-aware mutation fuzzing (rapid) + native coverage-guided go fuzz + depth grid in child processes",
         "Mutated valid encodings, hostile lengths and random bytes are decoded into every type; any panic, hang or out-of-proportion allocation is a violation, and accepted messages must survive Size/Marshal/Equal/Range/String/JSON. Depth arm: nested payloads against RecursionLimit, differential with dynamicpb, in child processes. Thorough adds go test -fuzz on all cores.",
         "Allocation bound is a calibrated linear budget; hangs use a generous watchdog and are re-run before being reported.", "4/C06"),
 "C07": ("property-based scribble test (rapid): mutate buffers after the call and compare deep snapshots; inputs decoded from read-only memory mappings",
         "Valid and mutated encodings are decoded from a page range mapped read-only, so that any store into the input faults, even one undone before returning. After Unmarshal the input is overwritten and the message re-read; after Marshal the message's byte slices are overwritten and the output re-read (and vice versa); read-only calls are bracketed by deep structural snapshots of the Go struct (nil vs empty, slice pointers, lengths, capacities).",
         "Snapshot ignores state/sizeCache/atomic bookkeeping of protobuf-go.", "4/C07"),
 "C08": ("model-based stateful testing: three-way lock-step state machine (rapid t.Repeat-style) + exhaustive short sequences",
         "Operation histories over Message/List/Map handles are applied in lock step to the generated message, to dynamicpb and to protoimpl reflection over a second struct; after every step results, panics and whole-message state must agree whenever the two references agree; explicit oneof/Range/Mutable invariants are asserted directly. A small all-shapes schema is enumerated exhaustively up to a bound. Further generated histories: lend / borrow of composite values between two messages, lists grown past several capacity doublings and cut again, operations addressed with the descriptors of an equal copy of the file.",
         "Only behaviour on which dynamicpb and protoimpl agree is asserted; stale handles are invalidated conservatively.", "4/C08"),
 "C09": ("finite matrix enumeration (source of nil x field x operation) + rapid-drawn parents",
         "Every way an empty read-only message/list/map can arise is crossed with every field and every read operation and library call; results must equal the reference's zero message and mutations must panic.",
         "Reference = dynamicpb zero message and protoimpl nil view where they agree.", "4/C09"),
 "C10": ("property-based differential of library algorithms and JSON/text codecs (rapid)",
         "proto.Equal/Clone/Merge/Reset/CheckInitialized and protojson/prototext marshal+unmarshal are run on generated messages and on dynamicpb messages holding the same values; answers must agree (JSON/text compared semantically).",
         "protojson/prototext output is unstable by design, so it is compared after parsing.", "4/C10"),
 "C11": ("randomised concurrent read schedules under the Go race detector (rapid-generated op lists)",
         "Shared messages (random values, values nested thousands of levels, very large values, Any fields packing generated types, nil-held empty bytes) are read concurrently by 2-48 goroutines executing drawn sequences of read-only operations with injected yields; the race detector must stay silent and every goroutine must see the sequential results.",
         "Schedules are sampled; the happens-before race detector reports a hidden write whenever two goroutines execute it unsynchronised, independent of timing.", "4/C11"),
 "C12": ("generated-program testing: schema matrix + rapid-drawn random schemas through the real plugin, compile, smoke engines",
         "The working-tree plugin binary is run on a fixed kind x shape x tag x name-collision corpus and on random proto3 schemas per seed with several parameter strings; it must answer without error, the output must compile (Go compiler as oracle) and the generated types must pass a smoke pass of the C01-C10/C14/C19 engines. Error/none-output requirements (unknown feature, proto2, unrequested files) are asserted.",
         "Programs are sampled (compile-bound); rare template branches are covered by the fixed matrix.", "4/C12"),
 "C13": ("metamorphic testing of the plugin process: repetition, permutation, subset and environment changes",
         "Same request in K fresh processes, permuted files_to_generate / proto_file orders, generation alone vs together, and changed cwd/HOME/TZ/PATH/argv0 must give byte-identical file contents free of timestamps/paths.",
         "Map-iteration nondeterminism is sampled by repetition (K processes).", "4/C13"),
 "C14": ("property-based differential with unknown-record injection at every nesting level (rapid)",
         "Streams with unknown records of all wire types (incl. nested groups) at every node are decoded; every node's unknown set must equal the reference's byte for byte, contain no known field number, be re-emitted after the known fields, and vanish everywhere under DiscardUnknown with nothing else changed; SetUnknown/GetUnknown round trip.",
         "Reference = dynamicpb raw unknown bytes; unknown tags are kept minimal because protobuf-go's table decoder re-encodes them inside nested well-known types.", "4/C14"),
 "C15": ("exhaustive boundary enumeration + random 64-bit search against protowire",
         "Sov/Soz vs protowire sizes on every 2^k boundary, millions of random values and (thorough) the whole 32-bit range; EncodeVarint with canary buffers at every offset; Skip vs protowire.ConsumeField on generated and mutated records, padded tags, unterminated varints, groups nested around the recursion limit and thousands of sibling groups.",
         "protowire is the reference.", "4/C15"),
 "C16": ("property-based testing of anyutil over messages, URL grammar and resolver configurations (rapid)",
         "Pack: URL and value exact (also for sources with unset required fields under AllowPartial, sources that are or hold the destination, messages nested 1500 levels); Unpack through ten resolver combinations agrees; hostile URLs/values/resolvers give (msg,nil) xor (nil,err), never a panic; failed pack leaves dst untouched; in sequences of packs nothing produced earlier changes.",
         "dynamicpb / anypb behaviour on an equal but separate pair is the reference for aliasing cases.", "4/C16"),
 "C17": ("property-based testing against exact math/big arithmetic (rapid, boundary-biased)",
         "Add/AddStd/Compare are compared with big-integer nanosecond arithmetic over the valid ranges with every carry/borrow edge; overflow must panic, never wrap.",
         "None beyond math/big.", "4/C17"),
 "C18": ("property-based testing of the generators themselves (rapid over types x option sets)",
         "Every drawn message must marshal, round-trip, and satisfy per-node validity predicates (UTF-8, Timestamp/Duration validity, Any resolvable, FieldMask non-empty, declared enum values, option flags).",
         "Types whose recursion is super-critical under the generator's branching are excluded and listed.", "4/C18"),
 "C19": ("differential testing of registered descriptors vs request schemas; property-based getter/reflection agreement (rapid)",
         "Registered file descriptors must equal the schema handed to the generator (options included); registry lookups, Type/New/Zero identities; getters (also on nil) equal Get; Reset, String round trip, enum methods.",
         "For checked-in packages the schema comes from a small parser for the .proto subset those files use.", "4/C19"),
}

CLAIMED = [l.strip() for l in open(os.path.join(HERE, "claimed.txt")) if l.strip() and not l.startswith("#")]

def main():
    repo_commits = subprocess.run(["git", "-C", "/repo", "log", "--format=%h %s"], capture_output=True, text=True).stdout.splitlines()
    hooks = [c.split()[0] for c in repo_commits if "verif hook" in c]
    checks = []
    for pid in sorted(CHECKS):
        if pid not in CLAIMED:
            continue
        tech, text, note, ref = CHECKS[pid]
        checks.append({
            "property_id": pid,
            "quick_cmd": "./check %s --tier quick" % pid,
            "thorough_cmd": "./check %s --tier thorough" % pid,
            "evidence_file": "/verif/evidence/%s.json" % pid,
            "replay_cmd_template": "./check %s --replay {path}" % pid,
            "engine": "kit/engines (%s)" % pid.lower(),
            "level_claimed": {"category": "exploration", "text": text, "design_ref": "DESIGN.md section " + ref},
            "level_note": note,
            "technique": tech,
        })
    na = [{"property_id": pid, "reason": "check not built yet in this session (planned, see DESIGN.md section 4)"}
          for pid in sorted(CHECKS) if pid not in CLAIMED]
    m = {
        "version": 1,
        "setup_cmd": "./setup.sh",
        "hooks": {
            "guard": "verif",
            "enable": "go build/test -tags verif (the only hook is package /repo/verifhook, which links internal/testprotos/test3 into the external test binary)",
            "baseline_off_cmd": "cd /repo && GOPROXY=off GOSUMDB=off GOTOOLCHAIN=local go test -vet=off -count=1 ./...",
            "source_commits": hooks,
            "add_only": True,
        },
        "engines": [
            {"name": "kit", "path": "kit/", "serves_properties": CLAIMED,
             "kind_free_text": "Go module: schema corpus + random schema generator, plugin driver, value/stream generators, spec encoder, one rapid engine per property, native fuzz target; python driver ./check builds everything from /repo's working tree"},
        ],
        "checks": checks,
        "notes": "Technique family: property-based testing and fuzzing (rapid v1.3.0, go test -fuzz). Exit 0 = held on everything explored, 1 = VIOLATION, 2 = inconclusive/infrastructure. known_findings.json lists recorded and fixed defects.",
    }
    m["not_applicable"] = na  # every listed property is claimed: the list is empty
    with open(os.path.join(HERE, "MANIFEST.json"), "w") as f:
        json.dump(m, f, indent=1)
        f.write("\n")
    try:
        import jsonschema
        jsonschema.validate(m, json.load(open("/root/.vp/MANIFEST.schema.json")))
        print("MANIFEST.json valid; claimed:", " ".join(CLAIMED))
    except ImportError:
        print("MANIFEST.json written (jsonschema not available to validate)")

if __name__ == "__main__":
    main()
