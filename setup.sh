#!/bin/sh
# MANIFEST.setup_cmd: offline toolchain sanity + warm the Go build cache by
# building the plugin, the schema corpus and the test binary for the current
# tree. Everything comes from files on disk.
set -e
cd "$(dirname "$0")"
export GOFLAGS=-mod=mod GOPROXY=off GOSUMDB=off GOTOOLCHAIN=local
go version
python3 - <<'PY'
import sys
sys.path.insert(0, '.')
import importlib.machinery, importlib.util
loader = importlib.machinery.SourceFileLoader('check', './check')
spec = importlib.util.spec_from_loader('check', loader)
m = importlib.util.module_from_spec(spec)
loader.exec_module(m)
b = m.Build().ensure()
print('setup: test binary', b.test)
PY
