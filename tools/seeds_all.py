#!/usr/bin/env python3
"""Regression of sensitivity: apply every recorded seeded change (seeded/*/patch.diff)
to /repo in turn, run the quick tier of the first property listed in its
meta.json (all listed ones with --all), restore /repo, and report which are
still caught.  tools/seeds_all.py [--all] [name-substring ...]"""
import json, os, subprocess, sys, time


def sh(cmd, cwd=None):
    p = subprocess.run(cmd, shell=True, cwd=cwd, stdout=subprocess.PIPE, stderr=subprocess.STDOUT, text=True, errors="replace")
    return p.returncode, p.stdout


def main():
    args = [a for a in sys.argv[1:] if a != "--all"]
    allprops = "--all" in sys.argv
    assert sh("git -C /repo status --porcelain")[1].strip() == "", "/repo must be clean"
    names = sorted(os.listdir("/verif/seeded"))
    if args:
        names = [n for n in names if any(a in n for a in args)]
    missed = []
    for n in names:
        d = os.path.join("/verif/seeded", n)
        meta = json.load(open(os.path.join(d, "meta.json")))
        props = meta["properties"] if allprops else meta["properties"][:1]
        caught_by = [p for p, r in meta.get("checks", {}).items() if r.get("exit") == 1]
        if not allprops and caught_by:
            props = caught_by[:1]
        try:
            rc, out = sh("git -C /repo apply %s" % os.path.join(d, "patch.diff"))
            if rc != 0:
                print("%-44s PATCH DOES NOT APPLY" % n)
                missed.append(n)
                continue
            res = {}
            for p in props:
                t0 = time.time()
                rc, out = sh("./check %s --tier quick" % p, cwd="/verif")
                res[p] = "CAUGHT" if rc == 1 and "VIOLATION" in out else "exit%d" % rc
            ok = any(v == "CAUGHT" for v in res.values())
            print("%-44s %s %s" % (n, "ok    " if ok else "MISSED", res), flush=True)
            if not ok:
                missed.append(n)
        finally:
            sh("git -C /repo checkout -- . && git -C /repo clean -fdq")
            sh("rm -rf /verif/replays; git -C /verif checkout -- evidence")
    print("seeds: %d, missed: %d %s" % (len(names), len(missed), missed))
    sys.exit(1 if missed else 0)


if __name__ == "__main__":
    main()
