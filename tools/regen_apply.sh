#!/bin/sh
# Carry a generator-template change over to the six checked-in *.pulsar.go
# files as a minimal diff:
#   1. "before" = regenerate from the registered descriptors with the plugin of
#      /repo's HEAD (templates as committed),
#   2. "after"  = same with the plugin of the working tree (templates edited),
#   3. apply diff(before, after) to the checked-in files.
# Usage: tools/regen_apply.sh   (run with the template edit uncommitted in /repo)
set -e
export GOFLAGS=-mod=mod GOPROXY=off GOSUMDB=off GOTOOLCHAIN=local
W=$(mktemp -d /var/tmp/regen-XXXXXX)
trap 'git -C /repo worktree remove --force $W/head 2>/dev/null || true; rm -rf $W' EXIT
git -C /repo worktree add -q --detach $W/head HEAD
mkdir -p $W/kit_head
cp -r /verif/kit/. $W/kit_head/
sed -i "s#=> /repo#=> $W/head#" $W/kit_head/go.mod
(cd $W/kit_head && go build -tags verif -o $W/plugin_head github.com/cosmos/cosmos-proto/cmd/protoc-gen-go-pulsar)
(cd /verif/kit && go build -tags verif -o $W/plugin_wt github.com/cosmos/cosmos-proto/cmd/protoc-gen-go-pulsar && go build -tags verif -o $W/regen ./cmd/regen)
$W/regen -plugin $W/plugin_head -out $W/before >/dev/null
$W/regen -plugin $W/plugin_wt -out $W/after >/dev/null
cd $W
diff -ruN before after > $W/fix.patch || true
if [ ! -s $W/fix.patch ]; then echo "regen: template change does not alter the checked-in outputs"; exit 0; fi
sed -i 's#^--- before/github.com/cosmos/cosmos-proto/#--- a/#; s#^+++ after/github.com/cosmos/cosmos-proto/#+++ b/#' $W/fix.patch
cd /repo && patch -p1 --no-backup-if-mismatch < $W/fix.patch
echo "regen: applied $(grep -c '^@@' $W/fix.patch) hunks"
