#!/usr/bin/env python3
"""Confirm a seeded breaking change delivered by a sub-agent and run the
checks against it.

  tools/seedcheck.py <seed-id> <dir-with-SEED> <property> [more properties...]

Steps (all in a fresh scratch worktree of /repo, removed afterwards):
  1. patch.diff applies to HEAD; the repository builds; the existing suite passes with it
  2. the demonstration fails with the patch and passes without it
Then the patch is applied to /repo itself, the named quick checks are run, and
/repo is restored. Everything is recorded in /verif/seeded/<seed-id>/meta.json.
"""
import json, os, re, shutil, subprocess, sys, tempfile, time

ENV = dict(os.environ, GOPROXY="off", GOSUMDB="off", GOTOOLCHAIN="local")


def sh(cmd, cwd=None, timeout=1800):
    p = subprocess.run(cmd, shell=True, cwd=cwd, env=ENV, stdout=subprocess.PIPE, stderr=subprocess.STDOUT, text=True, timeout=timeout)
    return p.returncode, p.stdout


def main():
    sid, src, props = sys.argv[1], sys.argv[2], sys.argv[3:]
    seed = os.path.join(src, "SEED")
    patch = os.path.join(seed, "patch.diff")
    readme = open(os.path.join(seed, "README.md")).read() if os.path.exists(os.path.join(seed, "README.md")) else ""
    demos = [f for f in os.listdir(seed) if f.endswith("_test.go")]
    assert os.path.exists(patch) and demos, "SEED must contain patch.diff and a *_test.go demonstration"
    # where does the demo go? README says; fall back to finding the agent's copy in its worktree
    demo_dir = None
    m = re.search(r"(testpb|internal/testprotos/test3|anyutil|support/timepb|rapidproto|runtime|generator|cmd/protoc-gen-go-pulsar|features/\w+)(?=[/`\s])", readme)
    rc, out = sh("git status --porcelain", cwd=src)
    for ln in out.splitlines():
        if ln.startswith("??") and ln.strip().endswith("_test.go") and "SEED/" not in ln:
            demo_dir = os.path.dirname(ln[3:].strip())
            demo_name = os.path.basename(ln[3:].strip())
    if demo_dir is None:
        demo_dir = m.group(1) if m else "testpb"
        demo_name = "seed_demo_test.go"
    meta = {"seed": sid, "properties": props, "demo_dir": demo_dir, "steps": {}}
    wt = tempfile.mkdtemp(prefix="seedchk-", dir="/var/tmp")
    os.rmdir(wt)
    assert sh("git -C /repo worktree add -q --detach %s HEAD" % wt)[0] == 0
    try:
        shutil.copy(os.path.join(seed, demos[0]), os.path.join(wt, demo_dir, demo_name))
        rc, out = sh("go test -vet=off -count=1 ./%s/ 2>&1 | tail -15" % demo_dir, cwd=wt)
        race = "-race " if "-race" in readme else ""
        rc0, out0 = sh("go test %s-vet=off -count=1 ./%s/" % (race, demo_dir), cwd=wt)
        meta["steps"]["demo_without_patch"] = "pass" if rc0 == 0 else "FAIL: " + out0[-600:]
        rc, out = sh("git apply %s" % patch, cwd=wt)
        meta["steps"]["patch_applies"] = rc == 0 or out[-300:]
        rc, out = sh("go build ./... ", cwd=wt)
        meta["steps"]["builds"] = rc == 0 or out[-600:]
        rc1, out1 = sh("go test %s-vet=off -count=1 ./%s/" % (race, demo_dir), cwd=wt)
        meta["steps"]["demo_with_patch"] = "fails (as required)" if rc1 != 0 else "PASSES (seed not effective)"
        os.remove(os.path.join(wt, demo_dir, demo_name))
        rc2, out2 = sh("go test -vet=off -count=1 ./... 2>&1 | grep -v 'no test files'", cwd=wt)
        bad = [l for l in out2.splitlines() if not l.startswith("ok")]
        meta["steps"]["existing_suite_with_patch"] = "pass" if not bad else "FAIL: " + "\n".join(bad)[-800:]
    finally:
        sh("git -C /repo worktree remove --force %s" % wt)
        shutil.rmtree(wt, ignore_errors=True)
    confirmed = (meta["steps"]["demo_without_patch"] == "pass" and meta["steps"]["patch_applies"] is True and meta["steps"]["builds"] is True
                 and meta["steps"]["demo_with_patch"].startswith("fails") and meta["steps"]["existing_suite_with_patch"] == "pass")
    meta["confirmed"] = confirmed
    print(json.dumps(meta["steps"], indent=1))
    if not confirmed:
        print("SEED %s NOT CONFIRMED" % sid)
    # run the checks against it
    assert sh("git -C /repo status --porcelain")[1].strip() == "", "/repo must be clean"
    meta["checks"] = {}
    try:
        assert sh("git -C /repo apply %s" % patch)[0] == 0
        for p in props:
            t0 = time.time()
            rc, out = sh("./check %s --tier quick" % p, cwd="/verif", timeout=3600)
            viol = [l for l in out.splitlines() if l.startswith("VIOLATION")]
            det = [l.strip() for l in out.splitlines() if l.startswith("  detail")]
            meta["checks"][p] = {"exit": rc, "violations": len(viol), "first_detail": (det[0][:400] if det else ""), "wall_s": round(time.time() - t0, 1)}
            print("check %s: exit %d, %d violations %s" % (p, rc, len(viol), det[0][:200] if det else ""))
    finally:
        sh("git -C /repo checkout -- . && git -C /repo clean -fdq")
        sh("rm -rf /verif/replays; git -C /verif checkout -- evidence")
    dst = os.path.join("/verif/seeded", sid)
    os.makedirs(dst, exist_ok=True)
    shutil.copy(patch, os.path.join(dst, "patch.diff"))
    shutil.copy(os.path.join(seed, demos[0]), os.path.join(dst, "demo_test.go"))
    if readme:
        open(os.path.join(dst, "README.agent.md"), "w").write(readme)
    meta["what_it_needs"] = "see README.agent.md"
    meta["ran"] = "tools/seedcheck.py %s" % " ".join(sys.argv[1:])
    json.dump(meta, open(os.path.join(dst, "meta.json"), "w"), indent=1)
    print("recorded in", dst, "confirmed=%s" % confirmed)


if __name__ == "__main__":
    main()
