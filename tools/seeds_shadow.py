#!/usr/bin/env python3
"""Like seeds_all.py, but without touching /repo: every recorded seeded change is
applied to a scratch worktree of /repo and the quick check is run from a shadow
copy of /verif with VERIF_REPO pointing at it (development aid: lets a
regression of sensitivity run while /repo serves something else).
tools/seeds_shadow.py <shadow-verif-dir> <scratch-worktree> [name-substring ...]"""
import json, os, subprocess, sys


def sh(cmd, cwd=None, env=None):
    p = subprocess.run(cmd, shell=True, cwd=cwd, env=env, stdout=subprocess.PIPE, stderr=subprocess.STDOUT, text=True, errors="replace")
    return p.returncode, p.stdout


def main():
    shadow, wt, args = sys.argv[1], sys.argv[2], sys.argv[3:]
    names = sorted(os.listdir("/verif/seeded"))
    if args:
        names = [n for n in names if any(a in n for a in args)]
    if not os.path.isdir(wt):
        assert sh("git -C /repo worktree add -q --detach %s HEAD" % wt)[0] == 0
    env = dict(os.environ, VERIF_REPO=wt)
    missed = []
    for n in names:
        d = os.path.join("/verif/seeded", n)
        meta = json.load(open(os.path.join(d, "meta.json")))
        caught_by = [p for p, r in meta.get("checks", {}).items() if r.get("exit") == 1]
        props = caught_by[:1] or meta["properties"][:1]
        try:
            if sh("git -C %s apply %s" % (wt, os.path.join(d, "patch.diff")))[0] != 0:
                print("%-60s PATCH DOES NOT APPLY (repaired since?)" % n, flush=True)
                continue
            rc, out = sh("./check %s --tier quick" % props[0], cwd=shadow, env=env)
            ok = rc == 1 and "VIOLATION" in out
            print("%-60s %s %s exit%d" % (n, "ok    " if ok else "MISSED", props[0], rc), flush=True)
            if not ok:
                missed.append(n)
        finally:
            sh("git -C %s checkout -- . && git -C %s clean -fdq" % (wt, wt))
            sh("rm -rf %s/replays" % shadow)
    print("seeds: %d, missed: %d %s" % (len(names), len(missed), missed))


if __name__ == "__main__":
    main()
