#!/usr/bin/env python3
"""Sensitivity protocol: apply one hand-written mutant at a time to /repo's
working tree, run the named quick checks, restore the tree. A check that stays
green against its mutant is reworked.

  tools/mutants.py [name ...]        (default: all)
"""
import json, os, subprocess, sys, time

REPO = "/repo"
VERIF = "/verif"

# name: (file, old, new, [properties expected to fail], also_regen_checked_in)
M = {
 "zigzag64-packed": ("features/fastreflection/proto_marshal.go",
    "g.P(xvar, ` := (uint64(num) << 1) ^ uint64((num >> 63))`)",
    "g.P(xvar, ` := (uint64(num) << 1) ^ uint64((num >> 31))`)", ["C01", "C02"]),
 "neg-zero-double-dropped": ("features/fastreflection/proto_marshal.go",
    "g.P(`if x.`, fieldname, ` != 0 || `, mathPackage.Ident(\"Signbit\"), `(x.`, fieldname, `) {`)\n\t\t\t}\n\t\t\tg.encodeFixed64(",
    "g.P(`if x.`, fieldname, ` != 0 {`)\n\t\t\t}\n\t\t\tg.encodeFixed64(", ["C01", "C04"]),
 "bool-key-sort-reversed": ("features/fastreflection/proto_marshal.go",
    'g.P("return !", keysName, "[i] && ", keysName, "[j]")',
    'g.P("return ", keysName, "[i] && !", keysName, "[j]")', ["C02", "C05"]),
 "oneofs-reverse-order": ("features/fastreflection/proto_marshal.go",
    "for i := len(g.message.Oneofs) - 1; i >= 0; i-- {\n\t\tfield := g.message.Oneofs[i]",
    "for i := 0; i < len(g.message.Oneofs); i++ {\n\t\tfield := g.message.Oneofs[i]", ["C02"]),
 "packed-second-run-replaces": ("features/fastreflection/proto_unmarshal.go",
    "g.P(`if elementCount != 0 && len(x.`, fieldname, `) == 0 {`)",
    "g.P(`if elementCount != 0 {`)", ["C03"]),
 "keysize-128": ("generator/helpers.go", "for size = 0; x > 127; size++ {", "for size = 0; x > 128; size++ {", ["C04", "C01"]),
 "deterministic-not-forwarded": ("runtime/runtime.go",
    "AllowPartial:      true, // defaults to true as the required fields check is done after the marshalling\n\t\tDeterministic:     input.Flags&protoiface.MarshalDeterministic != 0,",
    "AllowPartial:      true, // defaults to true as the required fields check is done after the marshalling\n\t\tDeterministic:     false,", ["C05", "C02"]),
 "bytes-bounds-check-removed": ("features/fastreflection/proto_unmarshal.go",
    "\t\tg.P(`postIndex := iNdEx + byteLen`)\n\t\tg.P(`if postIndex < 0 {`)\n\t\tg.P(`return `, protoifacePkg.Ident(\"UnmarshalOutput\"), \"{NoUnkeyedLiterals: input.NoUnkeyedLiterals, Flags: input.Flags},\", runtimePackage.Ident(\"ErrInvalidLength\"))\n\t\tg.P(`}`)\n\t\tg.P(`if postIndex > l {`)",
    "\t\tg.P(`postIndex := iNdEx + byteLen`)\n\t\tg.P(`if postIndex < 0 {`)\n\t\tg.P(`return `, protoifacePkg.Ident(\"UnmarshalOutput\"), \"{NoUnkeyedLiterals: input.NoUnkeyedLiterals, Flags: input.Flags},\", runtimePackage.Ident(\"ErrInvalidLength\"))\n\t\tg.P(`}`)\n\t\tg.P(`if postIndex > l + 1000000 {`)", ["C06"]),
 "bytes-alias-input": ("features/fastreflection/proto_unmarshal.go",
    "g.P(`x.`, fieldname, ` = append(x.`, fieldname, `[:0] , dAtA[iNdEx:postIndex]...)`)",
    "g.P(`x.`, fieldname, ` = dAtA[iNdEx:postIndex:postIndex]`)", ["C07"]),
 "unknown-alias-input": ("features/fastreflection/proto_unmarshal.go",
    "g.P(`x.unknownFields = append(x.unknownFields, dAtA[iNdEx:iNdEx+skippy]...)`)",
    "g.P(`if x.unknownFields == nil { x.unknownFields = dAtA[iNdEx:iNdEx+skippy:iNdEx+skippy] } else { x.unknownFields = append(x.unknownFields, dAtA[iNdEx:iNdEx+skippy]...) }`)", ["C07"]),
 "get-materialises-list": ("features/fastreflection/get.go",
    'g.P("if len(x.", field.GoName, ") == 0 {")\n\tg.P("return ", protoreflectPkg.Ident("ValueOfList"), "(&", listTypeName(field), "{})")',
    'g.P("if x.", field.GoName, " == nil { x.", field.GoName, " = []", getGoType(g.GeneratedFile, field), "{} }")\n\tg.P("if len(x.", field.GoName, ") == 0 {")\n\tg.P("return ", protoreflectPkg.Ident("ValueOfList"), "(&", listTypeName(field), "{})")', ["C07", "C11"]),
 "whichoneof-first-member": ("features/fastreflection/which_oneof.go",
    'g.P("switch x.", oneof.GoName, ".(type) {")\n\tfor _, field := range oneof.Fields {\n\t\tg.P("case *", g.QualifiedGoIdent(field.GoIdent), ":")\n\t\tg.P("return x.Descriptor().Fields().ByName(\\"", field.Desc.Name(), "\\")")',
    'g.P("switch x.", oneof.GoName, ".(type) {")\n\tfor _, field := range oneof.Fields {\n\t\tg.P("case *", g.QualifiedGoIdent(field.GoIdent), ":")\n\t\tg.P("return x.Descriptor().Fields().ByName(\\"", oneof.Fields[0].Desc.Name(), "\\")")', ["C08"]),
 "map-clear-noop": ("features/fastreflection/map.go", 'g.P("delete(*x.m, concreteKey)")', 'g.P("_ = concreteKey")', ["C08", "C10"]),
 "isvalid-always-true": ("features/fastreflection/proto_message.go", 'g.P("return x != nil")\n\tg.P("}")\n\tg.P()\n}\n\nfunc (g *fastGenerator) genProtoMethods', 'g.P("return true")\n\tg.P("}")\n\tg.P()\n}\n\nfunc (g *fastGenerator) genProtoMethods', ["C09"]),
 "has-false-for-neg-zero": ("features/fastreflection/has.go",
    'g.P("return x.", field.GoName, " != ", zeroValueForField(nil, field), " || ", mathPkg.Ident("Signbit"), "(x.", field.GoName, ")")',
    'g.P("return x.", field.GoName, " != ", zeroValueForField(nil, field))', ["C08", "C10", "C01"]),
 "size-writes-sizecache": ("features/fastreflection/proto_size.go",
    "\tg.P(`if x.unknownFields != nil {`)\n\tg.P(`n+=len(x.unknownFields)`)\n\tg.P(`}`)",
    "\tg.P(`if x.unknownFields != nil {`)\n\tg.P(`n+=len(x.unknownFields)`)\n\tg.P(`}`)\n\tg.P(`x.sizeCache = int32(n)`)", ["C11"]),
 "features-not-sorted": ("generator/features.go", "\tsort.Slice(sorted, func(i, j int) bool {\n\t\treturn sorted[i].name < sorted[j].name\n\t})", "\t_ = sort.Slice", ["C13"]),
 "discard-unknown-not-forwarded": ("runtime/runtime.go", "DiscardUnknown:    input.Flags&protoiface.UnmarshalDiscardUnknown != 0,", "DiscardUnknown:    false,", ["C14"]),
 "unknown-before-known": ("features/fastreflection/proto_marshal.go",
    "\tg.P(\"if x.unknownFields != nil {\")\n\tg.P(\"i -= len(x.unknownFields)\")\n\tg.P(\"copy(dAtA[i:], x.unknownFields)\")\n\tg.P(\"}\")\n\n\t// oneofs MUST be marshalled first!",
    "\t// oneofs MUST be marshalled first!", ["C14", "C01", "C04"]),
 "sov-off-by-one-top": ("runtime/runtime.go", "\treturn (bits.Len64(x|1) + 6) / 7\n", "\tif x >= 1<<63 {\n\t\treturn 9\n\t}\n\treturn (bits.Len64(x|1) + 6) / 7\n", ["C15"]),
 "skip-group-one-short": ("runtime/runtime.go", "\t\tcase 5:\n\t\t\tiNdEx += 4", "\t\tcase 5:\n\t\t\tiNdEx += 4\n\t\t\tif depth > 1 {\n\t\t\t\tiNdEx--\n\t\t\t}", ["C15", "C14"]),
 "any-url-host-prefix": ("anyutil/any.go", 'dst.TypeUrl = "/" + string(', 'dst.TypeUrl = "type.googleapis.com/" + string(', ["C16"]),
 "any-dst-assigned-early": ("anyutil/any.go", "\tb, err := opts.Marshal(src)\n\tif err != nil {\n\t\treturn err\n\t}\n\tdst.TypeUrl", "\tdst.Value = nil\n\tb, err := opts.Marshal(src)\n\tif err != nil {\n\t\treturn err\n\t}\n\tdst.TypeUrl", ["C16"]),
 "compare-ignores-nanos-sign": ("support/timepb/cmp.go", "t1.Seconds == t2.Seconds && t1.Nanos < t2.Nanos", "t1.Seconds == t2.Seconds && t1.Nanos <= t2.Nanos+1", ["C17"]),
 "add-carry-at-gt": ("support/timepb/cmp.go", "if t2.Nanos >= second {", "if t2.Nanos > second {", ["C17"]),
 "rapidproto-duration-nanos": ("rapidproto/rapidproto.go", 'nanos := rapid.Int32Range(0, 999999999).Draw(t, "nanos")\n\tsetSecondsNanosFields(t, msg, seconds, nanos)\n}\n\nfunc setSecondsNanosFields', 'nanos := rapid.Int32Range(0, 1000000000).Draw(t, "nanos")\n\tsetSecondsNanosFields(t, msg, seconds, nanos)\n}\n\nfunc setSecondsNanosFields', ["C18"]),
 "rapidproto-noemptylists-ignored": ("rapidproto/rapidproto.go", "\t\tif opts.NoEmptyLists {\n\t\t\tmin = 1\n\t\t}", "\t\tif opts.NoEmptyLists && kind != protoreflect.StringKind {\n\t\t\tmin = 1\n\t\t}", ["C18"]),
 "zero-returns-new": ("features/fastreflection/type.go", 'g.P("return (*", g.typeName, ")(nil)")', 'g.P("return new(", g.typeName, ")")', ["C19", "C09"]),
 "generator-crash-big-tag": ("features/fastreflection/proto_marshal.go", "func (g *fastGenerator) encodeKey(fieldNumber protoreflect.FieldNumber, wireType protowire.Type) {\n", "func (g *fastGenerator) encodeKey(fieldNumber protoreflect.FieldNumber, wireType protowire.Type) {\n\tif fieldNumber > 33554432 {\n\t\tpanic(\"tag too wide\")\n\t}\n", ["C12"]),
 "tag-5th-byte-dropped": ("features/fastreflection/proto_marshal.go", "\tkeybuf = append(keybuf, uint8(x))\n\tfor i = len(keybuf) - 1; i >= 0; i-- {", "\tkeybuf = append(keybuf, uint8(x))\n\tif len(keybuf) == 5 {\n\t\tkeybuf[4] &= 0x07\n\t}\n\tfor i = len(keybuf) - 1; i >= 0; i-- {", ["C02", "C01"]),
 "depth-check-removed": ("features/fastreflection/proto_unmarshal.go", 'g.P("if options.RecursionLimit <= 0 {")', 'g.P("if options.RecursionLimit <= -1000000 {")', ["C06"]),
 "mutable-oneof-reuses-wrapper": ("features/fastreflection/set.go", 'g.P("x.", field.Oneof.GoName, " = &", g.QualifiedGoIdent(field.GoIdent), "{", field.GoName, ": cv", "}")', 'g.P("if x.", field.Oneof.GoName, " == nil { x.", field.Oneof.GoName, " = &", g.QualifiedGoIdent(field.GoIdent), "{", field.GoName, ": cv", "} }")', ["C08", "C10"]),
 "clone-shares-bytes (list append aliasing)": ("features/fastreflection/list.go", 'g.P("*x.list = (*x.list)[:n]") // truncate', 'g.P("if n > 0 { *x.list = (*x.list)[:n] }") // truncate', ["C08"]),
}


def sh(cmd, **kw):
    return subprocess.run(cmd, shell=True, stdout=subprocess.PIPE, stderr=subprocess.STDOUT, text=True, **kw)


def main():
    names = sys.argv[1:] or list(M)
    assert sh("git -C /repo status --porcelain").stdout.strip() == "", "/repo working tree must be clean"
    results = {}
    for name in names:
        f, old, new, props = M[name]
        path = os.path.join(REPO, f)
        src = open(path).read()
        if src.count(old) != 1:
            print("MUTANT %-36s  NOT APPLICABLE (anchor found %d times)" % (name, src.count(old)))
            results[name] = "not-applicable"
            continue
        open(path, "w").write(src.replace(old, new))
        try:
            b = sh("cd /repo && GOFLAGS=-mod=mod GOPROXY=off GOSUMDB=off GOTOOLCHAIN=local go build ./... 2>&1 | tail -3")
            if b.stdout.strip():
                print("MUTANT %-36s  DOES NOT COMPILE: %s" % (name, b.stdout.strip()[:200]))
                results[name] = "no-compile"
                continue
            t = sh("cd /repo && GOPROXY=off GOSUMDB=off GOTOOLCHAIN=local go test -vet=off -count=1 ./... 2>&1 | grep -v 'no test files' | grep -v '^ok' | head -3")
            baseline = "baseline-pass" if not t.stdout.strip() else "BASELINE-FAILS"
            row = {}
            for p in props:
                t0 = time.time()
                r = sh("cd /verif && ./check %s --tier quick 2>&1" % p)
                v = [l for l in r.stdout.splitlines() if l.startswith("VIOLATION")]
                d = [l for l in r.stdout.splitlines() if l.startswith("  detail")]
                row[p] = ("CAUGHT" if r.returncode == 1 and v else ("exit%d" % r.returncode)) + " %.0fs" % (time.time() - t0)
                if r.returncode == 1 and d:
                    row[p] += " :: " + d[0][10:130]
            print("MUTANT %-36s  %s  %s" % (name, baseline, json.dumps(row)))
            results[name] = row
        finally:
            open(path, "w").write(src)
            sh("rm -rf /verif/replays; git -C /repo clean -fdq; git -C /verif checkout -- evidence")
    assert sh("git -C /repo status --porcelain").stdout.strip() == "", "restore failed"
    json.dump(results, open("/var/tmp/mutants_result.json", "w"), indent=1)


if __name__ == "__main__":
    main()
