#!/bin/sh
# Re-run every quick check on the current tree and validate the evidence files
# (the committed evidence must come from runs against /repo itself).
cd /verif
rc_all=0
for p in $(cat claimed.txt); do
  out=$(./check $p --tier quick 2>&1); rc=$?
  echo "$p rc=$rc $(echo "$out" | grep -E "quick seed|INCONCLUSIVE" | tail -1 | cut -c1-150)"
  [ $rc -ne 0 ] && rc_all=1 && echo "$out" | grep -E "VIOLATION|detail|HARNESS" | head -5 | cut -c1-300
done
python3-vt - <<'PY' || rc_all=1
import json,jsonschema,glob,sys
sch=json.load(open('/root/.vp/EVIDENCE.schema.json'))
bad=0
for f in sorted(glob.glob('/verif/evidence/*.json')):
    try:
        jsonschema.validate(json.load(open(f)),sch)
    except Exception as e:
        bad=1; print("INVALID", f, str(e)[:200])
print("evidence files valid" if not bad else "evidence INVALID")
sys.exit(bad)
PY
exit $rc_all
