// Package plug drives the protoc-gen-go-pulsar binary built from the working
// tree: it assembles CodeGeneratorRequests from descriptor protos (no protoc in
// the sandbox) and decodes the responses.
package plug

import (
	"bytes"
	"fmt"
	"os"
	"os/exec"
	"path/filepath"
	"sort"
	"strings"

	_ "github.com/cosmos/cosmos-proto" // registers cosmos_proto/cosmos.proto
	"google.golang.org/protobuf/proto"
	"google.golang.org/protobuf/reflect/protodesc"
	"google.golang.org/protobuf/reflect/protoreflect"
	"google.golang.org/protobuf/reflect/protoregistry"
	_ "google.golang.org/protobuf/types/known/anypb"
	_ "google.golang.org/protobuf/types/known/durationpb"
	_ "google.golang.org/protobuf/types/known/emptypb"
	_ "google.golang.org/protobuf/types/known/fieldmaskpb"
	_ "google.golang.org/protobuf/types/known/structpb"
	_ "google.golang.org/protobuf/types/known/timestamppb"
	_ "google.golang.org/protobuf/types/known/wrapperspb"
	"google.golang.org/protobuf/types/descriptorpb"
	"google.golang.org/protobuf/types/pluginpb"
)

// Universe resolves file names to descriptor protos: the given files first,
// then whatever is linked into this binary (well-known types, cosmos.proto).
type Universe struct {
	files map[string]*descriptorpb.FileDescriptorProto
}

func NewUniverse(files ...*descriptorpb.FileDescriptorProto) *Universe {
	u := &Universe{files: map[string]*descriptorpb.FileDescriptorProto{}}
	for _, f := range files {
		u.files[f.GetName()] = f
	}
	return u
}

func (u *Universe) Lookup(name string) (*descriptorpb.FileDescriptorProto, error) {
	if f, ok := u.files[name]; ok {
		return f, nil
	}
	fd, err := protoregistry.GlobalFiles.FindFileByPath(name)
	if err != nil {
		return nil, fmt.Errorf("dependency %q not found: %w", name, err)
	}
	p := protodesc.ToFileDescriptorProto(fd)
	if name == "cosmos_proto/cosmos.proto" {
		// the checked-in cosmos.pb.go embeds a go_package rewritten by buf's
		// managed mode; users compile against the option in the .proto source
		p.Options.GoPackage = proto.String("github.com/cosmos/cosmos-proto;cosmos_proto")
	}
	u.files[name] = p
	return p, nil
}

// Closure returns the transitive dependencies of the named files followed by
// the files themselves, in a topological order that is deterministic.
func (u *Universe) Closure(names ...string) ([]*descriptorpb.FileDescriptorProto, error) {
	var out []*descriptorpb.FileDescriptorProto
	seen := map[string]bool{}
	var visit func(n string) error
	visit = func(n string) error {
		if seen[n] {
			return nil
		}
		seen[n] = true
		f, err := u.Lookup(n)
		if err != nil {
			return err
		}
		for _, d := range f.Dependency {
			if err := visit(d); err != nil {
				return err
			}
		}
		out = append(out, f)
		return nil
	}
	for _, n := range names {
		if err := visit(n); err != nil {
			return nil, err
		}
	}
	return out, nil
}

// Validate builds real descriptors for the closure of names, which checks the
// schemas are valid proto3 before the generator sees them.
func (u *Universe) Validate(names ...string) (*protoregistry.Files, error) {
	files, err := u.Closure(names...)
	if err != nil {
		return nil, err
	}
	reg := &protoregistry.Files{}
	for _, f := range files {
		fd, err := protodesc.NewFile(f, reg)
		if err != nil {
			return nil, fmt.Errorf("%s: %w", f.GetName(), err)
		}
		if err := reg.RegisterFile(fd); err != nil {
			return nil, err
		}
	}
	return reg, nil
}

// Request builds a CodeGeneratorRequest generating the given files.
func (u *Universe) Request(param string, generate ...string) (*pluginpb.CodeGeneratorRequest, error) {
	files, err := u.Closure(generate...)
	if err != nil {
		return nil, err
	}
	req := &pluginpb.CodeGeneratorRequest{
		FileToGenerate:  generate,
		ProtoFile:       files,
		CompilerVersion: &pluginpb.Version{Major: proto.Int32(3), Minor: proto.Int32(21), Patch: proto.Int32(12)},
	}
	if param != "" {
		req.Parameter = proto.String(param)
	}
	return req, nil
}

// Result of one plugin process.
type Result struct {
	ExitCode int
	Stderr   string
	Resp     *pluginpb.CodeGeneratorResponse
	Raw      []byte
}

// RunOpt tweaks the child process environment.
type RunOpt struct {
	Dir  string
	Env  []string // replaces the environment when non-nil
	Argv0 string
}

// Run executes the plugin binary on req.
func Run(bin string, req *pluginpb.CodeGeneratorRequest, opt *RunOpt) (*Result, error) {
	in, err := proto.Marshal(req)
	if err != nil {
		return nil, err
	}
	return RunRaw(bin, in, opt)
}

func RunRaw(bin string, in []byte, opt *RunOpt) (*Result, error) {
	cmd := exec.Command(bin)
	if opt != nil {
		cmd.Dir = opt.Dir
		if opt.Env != nil {
			cmd.Env = opt.Env
		}
		if opt.Argv0 != "" {
			cmd.Args = []string{opt.Argv0}
		}
	}
	cmd.Stdin = bytes.NewReader(in)
	var stdout, stderr bytes.Buffer
	cmd.Stdout = &stdout
	cmd.Stderr = &stderr
	err := cmd.Run()
	res := &Result{Stderr: stderr.String(), Raw: stdout.Bytes()}
	if err != nil {
		if ee, ok := err.(*exec.ExitError); ok {
			res.ExitCode = ee.ExitCode()
		} else {
			return nil, err
		}
	}
	if res.ExitCode == 0 {
		resp := &pluginpb.CodeGeneratorResponse{}
		if err := proto.Unmarshal(stdout.Bytes(), resp); err != nil {
			return res, fmt.Errorf("plugin stdout is not a CodeGeneratorResponse: %w", err)
		}
		res.Resp = resp
	}
	return res, nil
}

// WriteFiles stores the generated files under root, stripping stripPrefix
// from their names. Returns the written paths (sorted).
func WriteFiles(root, stripPrefix string, resp *pluginpb.CodeGeneratorResponse) ([]string, error) {
	var out []string
	for _, f := range resp.File {
		name := strings.TrimPrefix(f.GetName(), stripPrefix)
		p := filepath.Join(root, name)
		if err := os.MkdirAll(filepath.Dir(p), 0o755); err != nil {
			return nil, err
		}
		if err := os.WriteFile(p, []byte(f.GetContent()), 0o644); err != nil {
			return nil, err
		}
		out = append(out, p)
	}
	sort.Strings(out)
	return out, nil
}

// AllMessages lists the full names of every non-map-entry message of fd.
func AllMessages(fd protoreflect.FileDescriptor) []protoreflect.FullName {
	var out []protoreflect.FullName
	var walk func(ms protoreflect.MessageDescriptors)
	walk = func(ms protoreflect.MessageDescriptors) {
		for i := 0; i < ms.Len(); i++ {
			m := ms.Get(i)
			if m.IsMapEntry() {
				continue
			}
			out = append(out, m.FullName())
			walk(m.Messages())
		}
	}
	walk(fd.Messages())
	return out
}
