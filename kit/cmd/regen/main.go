//go:build verif

// regen re-generates the repository's checked-in *.pulsar.go files from their
// registered descriptors with a given plugin binary, so that a template fix
// can be carried over to the checked-in outputs as a minimal diff.
//
//	regen -plugin BIN -out DIR
package main

import (
	"flag"
	"fmt"
	"os"
	"path/filepath"
	"strings"

	_ "github.com/cosmos/cosmos-proto/testpb"
	_ "github.com/cosmos/cosmos-proto/verifhook"
	"google.golang.org/protobuf/reflect/protodesc"
	"google.golang.org/protobuf/reflect/protoreflect"
	"google.golang.org/protobuf/reflect/protoregistry"
	"google.golang.org/protobuf/types/descriptorpb"

	"verif/kit/plug"
)

func main() {
	bin := flag.String("plugin", "", "plugin binary")
	out := flag.String("out", "", "output dir")
	flag.Parse()
	var names []string
	var protos []*descriptorpb.FileDescriptorProto
	protoregistry.GlobalFiles.RangeFiles(func(fd protoreflect.FileDescriptor) bool {
		p := protodesc.ToFileDescriptorProto(fd)
		gp := p.GetOptions().GetGoPackage()
		if strings.Contains(gp, "cosmos-proto/testpb") || strings.Contains(gp, "testprotos/test3") || strings.HasPrefix(string(fd.Package()), "goproto.proto.test3") {
			names = append(names, fd.Path())
		}
		protos = append(protos, p)
		return true
	})
	uni := plug.NewUniverse(protos...)
	for _, n := range names {
		req, err := uni.Request("", n)
		if err != nil {
			panic(err)
		}
		res, err := plug.Run(*bin, req, nil)
		if err != nil || res.ExitCode != 0 || res.Resp.Error != nil {
			fmt.Fprintln(os.Stderr, "plugin failed for", n, err, res)
			os.Exit(1)
		}
		for _, f := range res.Resp.File {
			p := filepath.Join(*out, f.GetName())
			os.MkdirAll(filepath.Dir(p), 0o755)
			os.WriteFile(p, []byte(f.GetContent()), 0o644)
			fmt.Println(n, "->", f.GetName())
		}
	}
}
