// mkrun generates the schema corpus with the working-tree plugin and lays out
// the scratch Go module ("verifrun") that links the generated packages, the
// checked-in packages and the kit engines into one test binary.
//
//	mkrun -plugin BIN -out DIR -kit /verif/kit -repo /repo [-random N -seed S] [-avoid a,b]
//
// It writes DIR/units.json describing, per schema unit, whether the plugin
// answered, whether the output compiles, and which message types it holds.
package main

import (
	"encoding/hex"
	"encoding/json"
	"flag"
	"fmt"
	"os"
	"os/exec"
	"path/filepath"
	"regexp"
	"sort"
	"strings"

	"google.golang.org/protobuf/proto"
	"google.golang.org/protobuf/types/descriptorpb"

	"verif/kit/plug"
	"verif/kit/schema"
)

type UnitReport struct {
	Name       string   `json:"name"`
	Proto      string   `json:"proto"`
	GoPkg      string   `json:"go_pkg"`
	Labels     []string `json:"labels"`
	Random     bool     `json:"random"`
	PluginOK   bool     `json:"plugin_ok"`
	PluginErr  string   `json:"plugin_err,omitempty"`
	Files      []string `json:"files"`
	CompileOK  bool     `json:"compile_ok"`
	CompileErr string   `json:"compile_err,omitempty"`
	Messages   []string `json:"messages"`
	Descriptor string   `json:"descriptor_hex"` // FileDescriptorProto (replay for C12)
}

func main() {
	pluginBin := flag.String("plugin", "", "plugin binary")
	out := flag.String("out", "", "scratch module root")
	kit := flag.String("kit", "/verif/kit", "kit module path")
	repo := flag.String("repo", "/repo", "repository path")
	nrandom := flag.Int("random", 0, "number of random schemas")
	seed := flag.Uint64("seed", 1, "seed for random schemas")
	avoid := flag.String("avoid", "", "comma-separated known-finding classes to steer random schemas away from")
	only := flag.String("only", "", "comma-separated unit names to keep (default all)")
	flag.Parse()
	if *pluginBin == "" || *out == "" {
		fmt.Fprintln(os.Stderr, "usage: mkrun -plugin BIN -out DIR")
		os.Exit(2)
	}
	units := schema.FixedCorpus()
	avoidSet := map[string]bool{}
	for _, a := range strings.Split(*avoid, ",") {
		if a != "" {
			avoidSet[a] = true
		}
	}
	isRandom := map[string]bool{}
	for i := 0; i < *nrandom; i++ {
		u := schema.RandomUnit(*seed, i, avoidSet)
		units = append(units, u)
		isRandom[u.Name] = true
	}
	if *only != "" {
		keep := map[string]bool{}
		for _, n := range strings.Split(*only, ",") {
			keep[n] = true
		}
		var f []*schema.Unit
		for _, u := range units {
			if keep[u.Name] {
				f = append(f, u)
			}
		}
		units = f
	}
	var protos []*descriptorpb.FileDescriptorProto
	for _, u := range units {
		protos = append(protos, u.File.P)
	}
	uni := plug.NewUniverse(protos...)

	must(os.MkdirAll(*out, 0o755))
	var reports []*UnitReport
	for _, u := range units {
		r := &UnitReport{Name: u.Name, Proto: u.File.P.GetName(), Labels: u.Label, Random: isRandom[u.Name]}
		gp := u.File.P.GetOptions().GetGoPackage()
		if i := strings.Index(gp, ";"); i >= 0 {
			gp = gp[:i]
		}
		r.GoPkg = gp
		b, _ := proto.MarshalOptions{Deterministic: true}.Marshal(u.File.P)
		r.Descriptor = hex.EncodeToString(b)
		reports = append(reports, r)

		reg, err := uni.Validate(u.File.P.GetName())
		if err != nil {
			// an invalid schema is a bug in the harness, never a finding
			fmt.Fprintf(os.Stderr, "HARNESS: schema %s is not valid proto3: %v\n", u.Name, err)
			os.Exit(2)
		}
		fd, _ := reg.FindFileByPath(u.File.P.GetName())
		for _, n := range plug.AllMessages(fd) {
			r.Messages = append(r.Messages, string(n))
		}
		req, err := uni.Request("", u.File.P.GetName())
		must(err)
		res, err := plug.Run(*pluginBin, req, nil)
		if err != nil {
			r.PluginErr = "plugin run: " + err.Error()
			continue
		}
		if res.ExitCode != 0 {
			r.PluginErr = fmt.Sprintf("plugin exit %d: %s", res.ExitCode, tail(res.Stderr, 2000))
			continue
		}
		if res.Resp.Error != nil {
			r.PluginErr = "response error: " + res.Resp.GetError()
			continue
		}
		if len(res.Resp.File) == 0 {
			r.PluginErr = "no file generated"
			continue
		}
		files, err := plug.WriteFiles(*out, "verifrun/", res.Resp)
		must(err)
		for _, f := range files {
			rel, _ := filepath.Rel(*out, f)
			r.Files = append(r.Files, rel)
		}
		r.PluginOK = true
	}

	// scratch module
	gomod := fmt.Sprintf(`module verifrun

go 1.21

require (
	github.com/cosmos/cosmos-proto v0.0.0
	google.golang.org/protobuf v1.34.0
	pgregory.net/rapid v1.3.0
	verif/kit v0.0.0
)

replace github.com/cosmos/cosmos-proto => %s

replace verif/kit => %s
`, *repo, *kit)
	must(os.WriteFile(filepath.Join(*out, "go.mod"), []byte(gomod), 0o644))
	sum, err := os.ReadFile(filepath.Join(*kit, "go.sum"))
	must(err)
	must(os.WriteFile(filepath.Join(*out, "go.sum"), sum, 0o644))

	// compile every generated package; drop the ones that fail
	failed := compileCheck(*out, reports)
	for _, r := range reports {
		if !r.PluginOK {
			continue
		}
		if msg, bad := failed[r.GoPkg]; bad {
			r.CompileErr = msg
		} else {
			r.CompileOK = true
		}
	}
	// a package importing a failed package fails too; iterate to a fixpoint
	// is unnecessary because go build reports dependants separately.

	var imports []string
	badPkg := map[string]bool{}
	for _, r := range reports {
		if !r.CompileOK {
			badPkg[r.GoPkg] = true
		}
	}
	seenImp := map[string]bool{}
	for _, r := range reports {
		if r.CompileOK && badPkg[r.GoPkg] {
			r.CompileOK = false
			r.CompileErr = "another file of the same Go package could not be generated or compiled"
		}
		if r.CompileOK && !seenImp[r.GoPkg] {
			seenImp[r.GoPkg] = true
			imports = append(imports, r.GoPkg)
		}
	}
	sort.Strings(imports)
	var sb strings.Builder
	sb.WriteString("// Code generated by mkrun. DO NOT EDIT.\npackage all\n\nimport (\n")
	sb.WriteString("\t_ \"github.com/cosmos/cosmos-proto/testpb\"\n\t_ \"github.com/cosmos/cosmos-proto/verifhook\"\n")
	for _, i := range imports {
		fmt.Fprintf(&sb, "\t_ %q\n", i)
	}
	sb.WriteString(")\n")
	must(os.MkdirAll(filepath.Join(*out, "all"), 0o755))
	must(os.WriteFile(filepath.Join(*out, "all", "all.go"), []byte(sb.String()), 0o644))

	test := `// Code generated by mkrun. DO NOT EDIT.
package verifrun

import (
	"testing"

	"verif/kit/engines"
	_ "verifrun/all"
)

func TestVerif(t *testing.T) { engines.Main(t) }

func FuzzDecode(f *testing.F) { engines.FuzzDecode(f) }
`
	must(os.WriteFile(filepath.Join(*out, "verif_test.go"), []byte(test), 0o644))

	js, _ := json.MarshalIndent(reports, "", " ")
	must(os.WriteFile(filepath.Join(*out, "units.json"), js, 0o644))
	nbad := 0
	for _, r := range reports {
		if !r.CompileOK {
			nbad++
		}
	}
	fmt.Printf("mkrun: %d units, %d not usable\n", len(reports), nbad)
}

var pkgHeader = regexp.MustCompile(`^# (\S+)`)

// compileCheck runs go build over the generated packages and returns, per
// failing import path, the compiler output.
func compileCheck(root string, reports []*UnitReport) map[string]string {
	failed := map[string]string{}
	for round := 0; round < 50; round++ {
		var pkgs []string
		seenPkg := map[string]bool{}
		pluginBad := map[string]bool{}
		for _, r := range reports {
			if !r.PluginOK {
				pluginBad[r.GoPkg] = true // a package missing one of its files cannot be judged
			}
		}
		for _, r := range reports {
			if _, bad := failed[r.GoPkg]; r.PluginOK && !bad && !seenPkg[r.GoPkg] && !pluginBad[r.GoPkg] {
				seenPkg[r.GoPkg] = true
				pkgs = append(pkgs, r.GoPkg)
			}
		}
		if len(pkgs) == 0 {
			break
		}
		newly := compileOnce(root, pkgs)
		if len(newly) == 0 {
			break
		}
		for k, v := range newly {
			failed[k] = tail(v, 3000)
		}
	}
	return failed
}

// compileOnce builds pkgs and returns the failing ones (go build stops at the
// first loading error, so the caller iterates).
func compileOnce(root string, pkgs []string) map[string]string {
	failed := map[string]string{}
	cmd := exec.Command("go", append([]string{"build", "-tags", "verif"}, pkgs...)...)
	cmd.Dir = root
	outb, err := cmd.CombinedOutput()
	if err == nil {
		return failed
	}
	cur := ""
	for _, line := range strings.Split(string(outb), "\n") {
		if m := pkgHeader.FindStringSubmatch(line); m != nil {
			cur = m[1]
			continue
		}
		attributed := false
		for _, p := range pkgs {
			if strings.HasPrefix(line, strings.TrimPrefix(p, "verifrun/")+"/") {
				failed[p] += line + "\n"
				attributed = true
			}
		}
		if !attributed && cur != "" && strings.TrimSpace(line) != "" {
			if _, ok := failed[cur]; ok || contains(pkgs, cur) {
				failed[cur] += line + "\n"
			}
		}
	}
	if len(failed) == 0 {
		// the errors belong to a package outside pkgs: a dependency that was already
		// found broken. Whoever imports it cannot be built either: find them one by one.
		for _, p := range pkgs {
			c := exec.Command("go", "build", "-tags", "verif", p)
			c.Dir = root
			if ob, e := c.CombinedOutput(); e != nil {
				failed[p] = "depends on a generated package that does not compile:\n" + tail(string(ob), 1500)
			}
		}
	}
	if len(failed) == 0 {
		fmt.Fprintf(os.Stderr, "HARNESS: go build failed but no package identified:\n%s\n", outb)
		os.Exit(2)
	}
	return failed
}

func contains(xs []string, x string) bool {
	for _, y := range xs {
		if x == y {
			return true
		}
	}
	return false
}

func tail(s string, n int) string {
	if len(s) > n {
		return s[:n] + "..."
	}
	return s
}

func must(err error) {
	if err != nil {
		fmt.Fprintln(os.Stderr, "HARNESS:", err)
		os.Exit(2)
	}
}
