package schema

import (
	"fmt"
	"strings"

	cosmos_proto "github.com/cosmos/cosmos-proto"
	"google.golang.org/protobuf/proto"
	"google.golang.org/protobuf/types/descriptorpb"
)

// GoRoot is the Go import path prefix of every freshly generated package.
const GoRoot = "verifrun/gen/"

// Unit is one schema file generated into its own Go package, so that a schema
// the generator mishandles does not take the others down with it.
type Unit struct {
	Name  string // short id; also the Go package directory under gen/
	File  *File
	Label []string // what the schema contains (for evidence)
}

func unit(name string, labels ...string) (*Unit, *File) {
	f := NewFile("verif/"+name+".proto", "verif."+name, GoRoot+name)
	return &Unit{Name: name, File: f, Label: labels}, f
}

// BoundaryNumbers are field numbers at every tag-width boundary (1..5 tag bytes).
var BoundaryNumbers = []int{1, 15, 16, 2047, 2048, 262143, 262144, 33554431, 33554432, 536870911}

func addChildAndEnum(f *File) (child T, enum T) {
	pkg := f.P.GetPackage()
	f.Enum("E", "E_ZERO", 0, "E_ONE", 1, "E_TWO", 2, "E_NEG", -1, "E_BIG", 1000, "E_MIN", -2147483648, "E_MAX", 2147483647, "E_ALIAS", 1)
	lf := f.Msg("Leaf")
	lf.F("t", 1, S(String))
	lf.F("n", 2, S(Sint64))
	c := f.Msg("Child")
	child = M(pkg + ".Child")
	enum = E(pkg + ".E")
	c.F("s", 1, S(String))
	c.F("i", 2, S(Int32))
	c.R("r", 3, S(Int64))
	c.Map("m", 4, String, S(Int32))
	c.F("c", 5, child)
	c.F("b", 6, S(Bytes))
	o := c.Oneof("o")
	c.O(o, "os", 7, S(String))
	c.O(o, "oc", 8, M(pkg+".Leaf"))
	c.F("d", 9, S(Double))
	return
}

// FixedCorpus is the schema matrix that every run generates and compiles.
func FixedCorpus() []*Unit {
	var out []*Unit

	// ---- kinds: every kind x {singular, packed, unpacked, oneof member}
	{
		u, f := unit("kinds", "all 17 kinds x singular/repeated/unpacked/oneof", "two interleaved oneofs", "sparse/negative/aliased enum")
		child, enum := addChildAndEnum(f)
		all := func() []T {
			var ts []T
			for _, k := range ScalarKinds {
				ts = append(ts, S(k))
			}
			return append(ts, enum, child)
		}()
		name := func(t T) string {
			switch t.Kind {
			case Enum:
				return "enum"
			case Message:
				return "msg"
			}
			return KindName(t.Kind)
		}
		m := f.Msg("Scalars")
		for i, t := range all {
			m.F("f_"+name(t), i+1, t)
		}
		m = f.Msg("Repeated")
		for i, t := range all {
			m.R("r_"+name(t), i+1, t)
		}
		m = f.Msg("Unpacked")
		for i, t := range all {
			if Packable(t.Kind) {
				m.U("u_"+name(t), i+1, t)
			}
		}
		// Oneofs: oneof "late" is declared first but numbered high; oneof "a"
		// holds one member of every kind except sint (see unit osint); plain
		// fields interleave by number.
		m = f.Msg("Oneofs")
		late := m.Oneof("late")
		a := m.Oneof("a")
		m.O(late, "late_s", 40, S(String))
		m.O(late, "late_m", 41, child)
		m.O(late, "late_i", 3, S(Int64)) // numbered inside a's range
		n := 4
		for _, t := range all {
			if t.Kind == Sint32 || t.Kind == Sint64 {
				continue
			}
			m.O(a, "a_"+name(t), n, t)
			n++
		}
		m.F("x", 1, S(Int32))
		m.F("y", 30, S(String))
		m.R("z", 2, S(Uint32))
		out = append(out, u)
	}

	// ---- osint: sint32/sint64 members of a oneof (isolated: D7)
	{
		u, f := unit("osint", "sint32/sint64 oneof members")
		m := f.Msg("OSint")
		o := m.Oneof("o")
		m.O(o, "s32", 1, S(Sint32))
		m.O(o, "s64", 2, S(Sint64))
		m.O(o, "str", 3, S(String))
		m.F("p", 4, S(Sint32))
		out = append(out, u)
	}

	// ---- maps: all 12 key kinds x all 17 value kinds
	{
		u, f := unit("maps", "all 204 map key x value kind pairs")
		child, enum := addChildAndEnum(f)
		for _, k := range KeyKinds {
			m := f.Msg("K" + KindName(k))
			n := 1
			for _, v := range ScalarKinds {
				m.Map("m_"+KindName(v), n, k, S(v))
				n++
			}
			m.Map("m_enum", n, k, enum)
			n++
			m.Map("m_msg", n, k, child)
		}
		out = append(out, u)
	}

	// ---- tags: field numbers needing 1..5 tag bytes, over several shapes
	{
		u, f := unit("tags", "field numbers 1,15,16,2047,2048,262143,262144,33554431,33554432,536870911")
		child, enum := addChildAndEnum(f)
		shapes := []struct {
			name string
			add  func(m *Msg, n int)
		}{
			{"Varint", func(m *Msg, n int) { m.F(fmt.Sprintf("f%d", n), n, S(Uint64)) }},
			{"Fixed", func(m *Msg, n int) { m.F(fmt.Sprintf("f%d", n), n, S(Sfixed32)) }},
			{"Str", func(m *Msg, n int) { m.F(fmt.Sprintf("f%d", n), n, S(String)) }},
			{"Sub", func(m *Msg, n int) { m.F(fmt.Sprintf("f%d", n), n, child) }},
			{"Packed", func(m *Msg, n int) { m.R(fmt.Sprintf("f%d", n), n, S(Sint64)) }},
			{"PackedFix", func(m *Msg, n int) { m.R(fmt.Sprintf("f%d", n), n, S(Double)) }},
			{"Unpacked", func(m *Msg, n int) { m.U(fmt.Sprintf("f%d", n), n, enum) }},
			{"RepMsg", func(m *Msg, n int) { m.R(fmt.Sprintf("f%d", n), n, child) }},
			{"RepBytes", func(m *Msg, n int) { m.R(fmt.Sprintf("f%d", n), n, S(Bytes)) }},
			{"Map", func(m *Msg, n int) { m.Map(fmt.Sprintf("f%d", n), n, Int32, child) }},
			{"MapStr", func(m *Msg, n int) { m.Map(fmt.Sprintf("f%d", n), n, String, S(Bool)) }},
		}
		for _, sh := range shapes {
			m := f.Msg("T" + sh.name)
			for _, n := range BoundaryNumbers {
				sh.add(m, n)
			}
		}
		m := f.Msg("TOneof")
		o := m.Oneof("o")
		kinds := []T{S(Uint32), S(String), child, S(Fixed64), S(Bool), enum, S(Bytes), S(Float), S(Int64), S(Sfixed32)}
		for i, n := range BoundaryNumbers {
			m.O(o, fmt.Sprintf("f%d", n), n, kinds[i])
		}
		out = append(out, u)
	}

	// ---- nest: nesting three deep, self and mutual recursion in every position
	{
		u, f := unit("nest", "3-deep nested declarations", "self/mutual recursion via singular, repeated, map value, oneof")
		pkg := "verif.nest"
		o := f.Msg("Outer")
		mid := o.Nested("Mid")
		in := mid.Nested("Inner")
		in.F("v", 1, S(Int32))
		in.Map("m", 2, Int64, S(String))
		in.Enum("IE", "IE_A", 0, "IE_B", 5)
		in.F("e", 3, E(pkg+".Outer.Mid.Inner.IE"))
		mid.F("inner", 1, M(pkg+".Outer.Mid.Inner"))
		mid.R("inners", 2, M(pkg+".Outer.Mid.Inner"))
		o.F("mid", 1, M(pkg+".Outer.Mid"))
		o.Map("mids", 2, String, M(pkg+".Outer.Mid"))
		o.F("inner", 3, M(pkg+".Outer.Mid.Inner"))

		r := f.Msg("Rec")
		r.F("self", 1, M(pkg+".Rec"))
		r.R("selves", 2, M(pkg+".Rec"))
		r.Map("by_name", 3, String, M(pkg+".Rec"))
		ro := r.Oneof("alt")
		r.O(ro, "alt_self", 4, M(pkg+".Rec"))
		r.O(ro, "alt_n", 5, S(Int32))
		r.F("label", 6, S(String))
		r.Map("counts", 7, Uint32, S(Uint64))

		a := f.Msg("MutA")
		b := f.Msg("MutB")
		a.F("b", 1, M(pkg+".MutB"))
		a.F("n", 2, S(Sint32))
		b.R("as", 1, M(pkg+".MutA"))
		b.Map("am", 2, Bool, M(pkg+".MutA"))
		b.F("s", 3, S(String))
		_ = a
		out = append(out, u)
	}

	// ---- nest2: nested types that themselves declare nested types, followed
	// by a sibling with nested types (order of the Go type tables)
	{
		u, f := unit("nest2", "nested message declaring nested enum+message, followed by a sibling with nested enum+message")
		pkg := "verif.nest2"
		o := f.Msg("Outer")
		mid := o.Nested("Mid")
		mid.Enum("Kind", "KIND_ZERO", 0, "KIND_ONE", 1)
		leaf := mid.Nested("Leaf")
		leaf.F("v", 1, S(Int32))
		mid.F("k", 1, E(pkg+".Outer.Mid.Kind"))
		mid.F("leaf", 2, M(pkg+".Outer.Mid.Leaf"))
		mid.Map("by", 3, String, M(pkg+".Outer.Mid.Leaf"))
		o.F("mid", 1, M(pkg+".Outer.Mid"))
		o.Enum("OE", "OE_A", 0, "OE_B", 2)
		o.F("oe", 2, E(pkg+".Outer.OE"))
		other := f.Msg("Other")
		other.Enum("Color", "RED_ZERO", 0, "RED", 1, "BLUE", 5)
		box := other.Nested("Box")
		box.F("w", 1, S(Uint32))
		box.Enum("Side", "SIDE_L", 0, "SIDE_R", 1)
		box.F("side", 2, E(pkg+".Other.Box.Side"))
		other.F("c", 1, E(pkg+".Other.Color"))
		other.F("box", 2, M(pkg+".Other.Box"))
		other.R("kinds", 3, E(pkg+".Outer.Mid.Kind"))
		f.Enum("Top", "TOP_0", 0, "TOP_9", 9)
		third := f.Msg("Third")
		third.F("t", 1, E(pkg+".Top"))
		third.F("o", 2, M(pkg+".Outer"))
		out = append(out, u)
	}

	// ---- impa / impb: imports across two Go packages
	{
		ua, fa := unit("impa", "imported package")
		fa.Enum("Color", "COLOR_UNSPECIFIED", 0, "RED", 1, "BLUE", 7)
		fa.Enum("Level", "LEVEL_ZZZ", 0, "LEVEL_AAA", 0, "LEVEL_M", 5, "LEVEL_B", 5)
		pa := fa.Msg("Point")
		pa.F("x", 1, S(Sint64))
		pa.F("y", 2, S(Sint64))
		pa.F("label", 3, S(String))
		pa.F("c", 4, E("verif.impa.Color"))
		pa.U("weights", 5, S(Double)) // declared-unpacked lists in two files that are generated together
		pa.U("ratios", 6, S(Float))
		nested := pa.Nested("Meta")
		nested.F("k", 1, S(String))
		nested.R("tags", 2, S(String))
		out = append(out, ua)

		ub, fb := unit("impb", "imports verif.impa in singular/repeated/map/oneof positions")
		fb.P.Dependency = append(fb.P.Dependency, "verif/impa.proto")
		m := fb.Msg("UsesA")
		m.F("p", 1, M("verif.impa.Point"))
		m.R("ps", 2, M("verif.impa.Point"))
		m.Map("pm", 3, String, M("verif.impa.Point"))
		o := m.Oneof("o")
		m.O(o, "op", 4, M("verif.impa.Point"))
		m.O(o, "oc", 5, E("verif.impa.Color"))
		m.O(o, "ometa", 9, M("verif.impa.Point.Meta"))
		m.O(o, "olvl", 11, E("verif.impa.Level"))
		m.F("c", 6, E("verif.impa.Color"))
		m.R("cs", 7, E("verif.impa.Color"))
		m.Map("cm", 8, Int32, E("verif.impa.Color"))
		m.F("lvl", 10, E("verif.impa.Level"))
		m.U("weights", 12, S(Double))
		m.U("ratios", 13, S(Float))
		m.U("codes", 14, S(Sfixed64))
		out = append(out, ub)
	}

	// ---- alpha/types, beta/types: different import paths, same Go package name
	{
		fa := NewFile("verif/alpha/types.proto", "verif.alpha.types", GoRoot+"alpha/types")
		fa.Enum("Denom", "DENOM_UNSPECIFIED", 0, "DENOM_A", 3)
		c := fa.Msg("Coin")
		c.F("amount", 1, S(Uint64))
		c.F("denom", 2, E("verif.alpha.types.Denom"))
		out = append(out, &Unit{Name: "alpha/types", File: fa, Label: []string{"Go package named types (imported)"}})
		fb := NewFile("verif/beta/types.proto", "verif.beta.types", GoRoot+"beta/types", "verif/alpha/types.proto")
		wl := fb.Msg("Wallet")
		wl.F("coin", 1, M("verif.alpha.types.Coin"))
		wl.R("coins", 2, M("verif.alpha.types.Coin"))
		wl.Map("by_name", 3, String, M("verif.alpha.types.Coin"))
		wl.F("denom", 4, E("verif.alpha.types.Denom"))
		wl.Map("denoms", 5, Int32, E("verif.alpha.types.Denom"))
		o := wl.Oneof("pick")
		wl.O(o, "one", 6, M("verif.alpha.types.Coin"))
		wl.O(o, "kind", 7, E("verif.alpha.types.Denom"))
		out = append(out, &Unit{Name: "beta/types", File: fb, Label: []string{"imports a Go package with the same package name under another import path"}})
		// two more Go packages called "types", and a file whose fields come from all
		// four of them: protogen hands out import aliases (types, types1, ...) in
		// the order the packages are first mentioned
		deps := []string{"verif/alpha/types.proto", "verif/beta/types.proto"}
		for _, n := range []string{"gamma", "delta"} {
			fg := NewFile("verif/"+n+"/types.proto", "verif."+n+".types", GoRoot+n+"/types")
			fg.Enum("Unit", "UNIT_UNSPECIFIED", 0, "UNIT_ONE", 1)
			g := fg.Msg("Params")
			g.F("n", 1, S(Sint32))
			g.F("unit", 2, E("verif."+n+".types.Unit"))
			out = append(out, &Unit{Name: n + "/types", File: fg, Label: []string{"Go package named types (imported)"}})
			deps = append(deps, "verif/"+n+"/types.proto")
		}
		fu := NewFile("verif/usetypes.proto", "verif.usetypes", GoRoot+"usetypes", deps...)
		tx := fu.Msg("Tx")
		tx.F("delta", 1, M("verif.delta.types.Params"))
		tx.R("coins", 2, M("verif.alpha.types.Coin"))
		tx.F("wallet", 3, M("verif.beta.types.Wallet"))
		tx.Map("gammas", 4, String, M("verif.gamma.types.Params"))
		tx.F("unit", 5, E("verif.gamma.types.Unit"))
		tx.R("units", 6, E("verif.delta.types.Unit"))
		ot := tx.Oneof("body")
		tx.O(ot, "coin", 7, M("verif.alpha.types.Coin"))
		tx.O(ot, "params", 8, M("verif.delta.types.Params"))
		tx.O(ot, "denom", 9, E("verif.alpha.types.Denom"))
		out = append(out, &Unit{Name: "usetypes", File: fu, Label: []string{"fields from four Go packages that are all called types"}})
	}

	// ---- dupnames: messages sharing a short name under different parents, a
	// user message named like a map entry, reserved field names in the later one
	{
		u, f := unit("dupnames", "two nested messages with the same short name; reserved field/oneof names in the second; message named like a map entry")
		pkg := "verif.dupnames"
		rq := f.Msg("Request")
		ro := rq.Nested("Options")
		ro.F("type", 1, S(String))
		ro.F("limit", 2, S(Int32))
		rq.F("options", 1, M(pkg+".Request.Options"))
		rq.Map("labels", 2, String, S(String))
		rs := f.Msg("Response")
		so := rs.Nested("Options")
		so.F("type", 1, S(Int64))
		so.F("get", 2, S(Bool))
		oo := so.Oneof("range")
		so.O(oo, "has", 3, S(String))
		so.O(oo, "inner", 4, M(pkg+".Request.Options"))
		rs.F("options", 1, M(pkg+".Response.Options"))
		rs.R("all", 2, M(pkg+".Response.Options"))
		rs.Map("labels", 3, String, M(pkg+".Response.Options"))
		le := f.Msg("LabelsEntry") // same short name as the synthetic map entries above
		le.F("key", 1, S(String))
		le.F("value", 2, S(Uint64))
		out = append(out, u)
	}

	// ---- enumonly / usesenum: a file that declares only enums, imported by another package
	{
		ue, fe := unit("enumonly", "file with enums only (no message)")
		fe.Enum("Mode", "MODE_UNSPECIFIED", 0, "MODE_FAST", 1, "MODE_NEG", -5)
		fe.Enum("Level", "LEVEL_0", 0, "LEVEL_HIGH", 100)
		out = append(out, ue)
		uu, fu := unit("usesenum", "imports an enum-only file; message without fields; go_package whose last element differs from the package name")
		fu.P.Dependency = append(fu.P.Dependency, "verif/enumonly.proto")
		fu.P.Options.GoPackage = proto.String(GoRoot + "usesenum;enumuser")
		m := fu.Msg("Cfg")
		m.F("mode", 1, E("verif.enumonly.Mode"))
		m.R("modes", 2, E("verif.enumonly.Mode"))
		m.U("levels", 3, E("verif.enumonly.Level"))
		m.Map("by_name", 4, String, E("verif.enumonly.Level"))
		o := m.Oneof("pick")
		m.O(o, "m", 5, E("verif.enumonly.Mode"))
		m.O(o, "l", 6, E("verif.enumonly.Level"))
		fu.Msg("Nothing")
		hold := fu.Msg("Holder")
		hold.F("nothing", 1, M("verif.usesenum.Nothing"))
		hold.R("nothings", 2, M("verif.usesenum.Nothing"))
		hold.Map("nm", 3, Int64, M("verif.usesenum.Nothing"))
		pair := fu.Msg("Pair") // only singular message fields of field-less messages
		pair.F("a", 1, M("verif.usesenum.Nothing"))
		pair.F("b", 2, M("verif.usesenum.Nothing"))
		out = append(out, uu)
	}

	// ---- samepkg: three files of ONE Go package; a_main imports the two others
	// (which do not import each other) and its generated file sorts first
	{
		gp := GoRoot + "samepkg"
		fm := NewFile("verif/samepkg/m_types.proto", "verif.samepkg", gp)
		mt := fm.Msg("M")
		mt.F("v", 1, S(Int32))
		mt.R("tags", 2, S(String))
		mt.U("weights", 3, S(Double))
		mt.U("ratios", 4, S(Float))
		fz := NewFile("verif/samepkg/z_types.proto", "verif.samepkg", gp)
		fz.Enum("Shape", "SHAPE_UNSPECIFIED", 0, "SHAPE_ROUND", 1, "SHAPE_FLAT", 4)
		// aliases of the zero value and of 2 whose names sort BEFORE the name declared first
		fz.Enum("Mode", "MODE_UNKNOWN", 0, "MODE_DEFAULT", 0, "MODE_B", 2, "MODE_A", 2, "MODE_NEG", -1)
		zt := fz.Msg("Z")
		zt.F("s", 1, E("verif.samepkg.Shape"))
		zt.Map("m", 2, String, S(Int64))
		zt.F("mode", 3, E("verif.samepkg.Mode"))
		zt.U("weights", 4, S(Double))
		zt.U("ratios", 5, S(Float))
		fa := NewFile("verif/samepkg/a_main.proto", "verif.samepkg", gp, "verif/samepkg/m_types.proto", "verif/samepkg/z_types.proto")
		am := fa.Msg("Main")
		am.F("m", 1, M("verif.samepkg.M"))
		am.F("z", 2, M("verif.samepkg.Z"))
		am.F("shape", 3, E("verif.samepkg.Shape"))
		am.R("zs", 4, M("verif.samepkg.Z"))
		am.Map("by", 5, String, M("verif.samepkg.M"))
		am.R("shapes", 6, E("verif.samepkg.Shape"))
		o := am.Oneof("pick")
		am.O(o, "pm", 7, M("verif.samepkg.M"))
		am.O(o, "ps", 8, E("verif.samepkg.Shape"))
		am.O(o, "pmode", 9, E("verif.samepkg.Mode"))
		am.F("mode", 10, E("verif.samepkg.Mode"))
		am.R("modes", 11, E("verif.samepkg.Mode"))
		am.Map("mode_by", 12, Bool, E("verif.samepkg.Mode"))
		am.U("weights", 13, S(Double))
		am.U("ratios", 14, S(Float))
		out = append(out,
			&Unit{Name: "samepkg_m", File: fm, Label: []string{"same Go package, file 1 of 3 (imported, messages only)"}},
			&Unit{Name: "samepkg_z", File: fz, Label: []string{"same Go package, file 2 of 3 (imported, enum + message)"}},
			&Unit{Name: "samepkg_a", File: fa, Label: []string{"same Go package, file 3 of 3: imports two sibling files, sorts first"}})
	}

	// ---- wkt2: well-known types without the recursive ones (usable by generators that cannot bound Struct/Value)
	{
		u, f := unit("wkt2", "Any/Timestamp/Duration/FieldMask in singular/repeated/map(bool and string keys)/oneof, no Struct/Value")
		f.P.Dependency = append(f.P.Dependency, "google/protobuf/any.proto", "google/protobuf/timestamp.proto", "google/protobuf/duration.proto", "google/protobuf/field_mask.proto")
		wk := []struct{ n, t string }{{"any", "google.protobuf.Any"}, {"ts", "google.protobuf.Timestamp"}, {"dur", "google.protobuf.Duration"}, {"fm", "google.protobuf.FieldMask"}}
		m := f.Msg("Holder")
		n := 1
		for _, w := range wk {
			m.F(w.n, n, M(w.t))
			m.R(w.n+"s", n+1, M(w.t))
			m.Map(w.n+"_by_bool", n+2, Bool, M(w.t))
			m.Map(w.n+"_by_name", n+3, String, M(w.t))
			n += 4
		}
		o := m.Oneof("one")
		for _, w := range wk {
			m.O(o, "one_"+w.n, n, M(w.t))
			n++
		}
		out = append(out, u)
	}

	// ---- wkt: well-known types in every position
	{
		u, f := unit("wkt", "Any/Timestamp/Duration/FieldMask/Struct/Value/wrappers/Empty in singular/repeated/map/oneof")
		f.P.Dependency = append(f.P.Dependency,
			"google/protobuf/any.proto", "google/protobuf/timestamp.proto", "google/protobuf/duration.proto",
			"google/protobuf/field_mask.proto", "google/protobuf/struct.proto", "google/protobuf/wrappers.proto",
			"google/protobuf/empty.proto")
		wk := []struct{ n, t string }{
			{"any", "google.protobuf.Any"}, {"ts", "google.protobuf.Timestamp"}, {"dur", "google.protobuf.Duration"},
			{"fm", "google.protobuf.FieldMask"}, {"st", "google.protobuf.Struct"}, {"val", "google.protobuf.Value"},
			{"i64", "google.protobuf.Int64Value"}, {"str", "google.protobuf.StringValue"}, {"bv", "google.protobuf.BytesValue"},
			{"empty", "google.protobuf.Empty"},
		}
		m := f.Msg("Singular")
		for i, w := range wk {
			m.F(w.n, i+1, M(w.t))
		}
		m = f.Msg("Lists")
		for i, w := range wk {
			m.R(w.n, i+1, M(w.t))
		}
		m = f.Msg("Maps")
		for i, w := range wk {
			m.Map(w.n, i+1, String, M(w.t))
		}
		m = f.Msg("Choice")
		o := m.Oneof("o")
		for i, w := range wk {
			m.O(o, w.n, i+1, M(w.t))
		}
		out = append(out, u)
	}

	// ---- names: fields named after protoreflect.Message methods, protoc-gen-go
	// reserved names and Go keywords
	{
		u, f := unit("names", "field names colliding with protoreflect.Message methods, protoc-gen-go reserved names, Go keywords")
		m := f.Msg("Methods")
		names := []string{"descriptor", "type", "new", "interface", "range", "has", "clear", "get", "set", "mutable",
			"new_field", "which_oneof", "get_unknown", "set_unknown", "is_valid", "proto_methods"}
		for i, n := range names {
			m.F(n, i+1, S(String))
		}
		// a message without fields of its own (a pure namespace) whose nested
		// messages use the reserved names, two levels down as well
		sc := f.Msg("Scope")
		se := sc.Nested("Entry")
		for i, n := range []string{"get", "range", "type", "descriptor", "new"} {
			se.F(n, i+1, S(Int64))
		}
		so := se.Oneof("has")
		se.O(so, "h1", 10, S(String))
		se.O(so, "h2", 11, M("verif.names.Methods"))
		sd := sc.Nested("Deeper").Nested("Leaf")
		sd.R("set", 1, S(String))
		sd.Map("clear", 2, Int32, M("verif.names.Scope.Entry"))
		// the name a reserved field is renamed to (and its getter) is taken already
		rc := f.Msg("RenameClash")
		rc.F("type", 1, S(String))
		rc.F("get_type", 2, S(String))
		rc.F("range", 3, S(Int32))
		rc.F("get_range", 4, S(Int32))
		rc2 := f.Msg("RenameClashOneof")
		rc2.F("type", 1, S(String))
		rco := rc2.Oneof("type_")
		rc2.O(rco, "a", 2, S(Int64))
		rc2.O(rco, "b", 3, M("verif.names.Methods"))
		m = f.Msg("MethodsMixed")
		m.R("get", 1, S(Int32))
		m.Map("set", 2, String, S(String))
		m.F("type", 3, M("verif.names.Methods"))
		o := m.Oneof("kind")
		m.O(o, "has", 4, S(Bool))
		m.O(o, "range", 5, M("verif.names.Methods"))
		m.F("clear", 6, S(Bytes))
		m = f.Msg("Reserved")
		for i, n := range []string{"reset", "string", "proto_message", "marshal", "unmarshal"} {
			m.F(n, i+1, S(Int64))
		}
		m = f.Msg("Keywords")
		for i, n := range []string{"func", "go", "select", "chan", "defer", "package", "import", "var", "const", "map", "struct", "fallthrough", "x", "input", "options", "size", "n", "l", "i", "d_at_a", "i_nd_ex", "err", "value", "fd", "descriptor_", "len", "string", "int32", "uint64", "append", "copy", "make", "nil", "true", "false", "fmt", "math", "sort", "runtime", "protoreflect", "protoiface", "protoimpl", "binary", "io", "sync", "reflect"} {
			m.F(n, i+1, S(Uint32))
		}
		// locals used by the codec closures, as repeated / map fields
		m = f.Msg("Locals")
		m.R("l", 1, S(String))
		m.Map("k", 2, String, S(String))
		m.Map("v", 3, Int32, M("verif.names.Methods"))
		m.R("e", 4, M("verif.names.Methods"))
		m.R("num", 5, S(Int32))
		m.R("b", 6, S(Bytes))
		m.R("s", 7, S(String))
		m.F("encoded", 8, M("verif.names.Methods"))
		m.F("out", 9, S(String))
		m.Map("sortme", 10, String, S(Int64))
		m.Map("base_i", 11, Bool, S(Bytes))
		out = append(out, u)
	}

	// ---- onames: oneofs named after protoreflect.Message methods (isolated: D8)
	for _, n := range []string{"type", "get", "descriptor", "range", "new", "has"} {
		u, f := unit("oname"+n, "oneof named "+n)
		m := f.Msg("M")
		o := m.Oneof(n)
		m.O(o, "a", 1, S(String))
		m.O(o, "b", 2, S(Int32))
		out = append(out, u)
	}

	// ---- names2: imports names and declares the SUFFIXED forms of the reserved
	// names (descriptor_, get_, ...): what the generator turns the reserved names
	// into must not leak from one file of a run into another
	{
		u, f := unit("names2", "fields and oneofs named like the renamed reserved names (get_, type_, ...), in a file co-generated with the one that has the reserved names")
		f.P.Dependency = append(f.P.Dependency, "verif/names.proto")
		m := f.Msg("Suffixed")
		for i, n := range []string{"descriptor", "type", "new", "interface", "range", "has", "clear", "get", "set", "mutable",
			"new_field", "which_oneof", "get_unknown", "set_unknown", "is_valid", "proto_methods"} {
			m.F(n+"_", i+1, S(String))
		}
		m.F("methods", 40, M("verif.names.Methods"))
		m2 := f.Msg("SuffixedOneof")
		o := m2.Oneof("get_")
		m2.O(o, "a", 1, S(Int32))
		m2.O(o, "b", 2, M("verif.names.Methods"))
		o2 := m2.Oneof("type_")
		m2.O(o2, "c", 3, S(String))
		out = append(out, u)
	}

	// ---- fdnames: names that collide in the generator's own fd_/md_ variables
	{
		u, f := unit("fdnames", "message A field B_c vs nested message A.B field c (fd_A_B_c)")
		a := f.Msg("A")
		a.F("B_c", 1, S(String))
		b := a.Nested("B")
		b.F("c", 1, S(Int32))
		a.F("b", 2, M("verif.fdnames.A.B"))
		out = append(out, u)
	}

	// ---- opts: custom options from cosmos.proto, a service, file in a Go
	// package whose name differs from the last path element
	{
		u, f := unit("opts", "cosmos_proto custom options", "service", "go_package with explicit package name")
		f.P.Dependency = append(f.P.Dependency, "cosmos_proto/cosmos.proto", "google/protobuf/any.proto")
		f.P.Options.GoPackage = proto.String(GoRoot + "opts;optspkg")
		proto.SetExtension(f.P.Options, cosmos_proto.E_DeclareInterface, []*cosmos_proto.InterfaceDescriptor{{Name: "verif.opts.Animal", Description: "an animal"}})
		proto.SetExtension(f.P.Options, cosmos_proto.E_DeclareScalar, []*cosmos_proto.ScalarDescriptor{{Name: "verif.opts.Addr", Description: "addr", FieldType: []cosmos_proto.ScalarType{cosmos_proto.ScalarType_SCALAR_TYPE_STRING}}})
		m := f.Msg("Dog")
		m.P.Options = &descriptorpb.MessageOptions{}
		proto.SetExtension(m.P.Options, cosmos_proto.E_ImplementsInterface, []string{"verif.opts.Animal"})
		fd := m.F("owner", 1, S(String))
		fd.Options = &descriptorpb.FieldOptions{}
		proto.SetExtension(fd.Options, cosmos_proto.E_Scalar, "verif.opts.Addr")
		fd = m.F("friend", 2, M("google.protobuf.Any"))
		fd.Options = &descriptorpb.FieldOptions{}
		proto.SetExtension(fd.Options, cosmos_proto.E_AcceptsInterface, "verif.opts.Animal")
		m.F("age", 3, S(Uint32))
		req := f.Msg("Req")
		req.F("q", 1, S(String))
		f.P.Service = append(f.P.Service, &descriptorpb.ServiceDescriptorProto{
			Name: proto.String("Kennel"),
			Method: []*descriptorpb.MethodDescriptorProto{{
				Name: proto.String("Find"), InputType: proto.String(".verif.opts.Req"), OutputType: proto.String(".verif.opts.Dog"),
				Options: func() *descriptorpb.MethodOptions {
					o := &descriptorpb.MethodOptions{}
					proto.SetExtension(o, cosmos_proto.E_MethodAddedIn, "verif v1")
					return o
				}(),
			}, {
				Name: proto.String("Adopt"), InputType: proto.String(".verif.opts.Dog"), OutputType: proto.String(".verif.opts.Receipt"),
			}, {
				Name: proto.String("Watch"), InputType: proto.String(".verif.opts.Req"), OutputType: proto.String(".google.protobuf.Any"), ServerStreaming: proto.Bool(true),
			}},
		}, &descriptorpb.ServiceDescriptorProto{
			Name: proto.String("Vet"),
			Method: []*descriptorpb.MethodDescriptorProto{{
				Name: proto.String("Examine"), InputType: proto.String(".verif.opts.Dog"), OutputType: proto.String(".verif.opts.Dog"), ClientStreaming: proto.Bool(true), ServerStreaming: proto.Bool(true),
			}, {
				Name: proto.String("Bill"), InputType: proto.String(".verif.opts.Receipt"), OutputType: proto.String(".verif.opts.Req"),
			}},
		})
		rc := f.Msg("Receipt")
		rc.F("amount", 1, S(Uint64))
		out = append(out, u)
	}

	out = append(out, customOptsUnit())

	// ---- svconly / extonly / emptyfile: files that declare no message and no enum
	{
		u, f := unit("svconly", "file that declares only a service (its messages come from an imported file of another Go package)")
		f.P.Dependency = append(f.P.Dependency, "verif/impa.proto")
		f.P.Service = append(f.P.Service, &descriptorpb.ServiceDescriptorProto{
			Name: proto.String("Plotter"),
			Method: []*descriptorpb.MethodDescriptorProto{
				{Name: proto.String("Plot"), InputType: proto.String(".verif.impa.Point"), OutputType: proto.String(".verif.impa.Point")},
				{Name: proto.String("Trace"), InputType: proto.String(".verif.impa.Point"), OutputType: proto.String(".verif.impa.Point"), ServerStreaming: proto.Bool(true)},
			},
		})
		out = append(out, u)
		// the same as a sibling file inside the Go package of samepkg (no Go type of its own)
		fs := NewFile("verif/samepkg/q_service.proto", "verif.samepkg", GoRoot+"samepkg", "verif/samepkg/m_types.proto", "verif/samepkg/z_types.proto")
		fs.P.Service = append(fs.P.Service, &descriptorpb.ServiceDescriptorProto{
			Name:   proto.String("Q"),
			Method: []*descriptorpb.MethodDescriptorProto{{Name: proto.String("Ask"), InputType: proto.String(".verif.samepkg.M"), OutputType: proto.String(".verif.samepkg.Z")}},
		})
		out = append(out, &Unit{Name: "samepkg_q", File: fs, Label: []string{"same Go package, a file that declares only a service"}})
		ue, fe := unit("extonly", "file that declares only custom options (extensions), nothing else")
		fe.P.Dependency = append(fe.P.Dependency, "google/protobuf/descriptor.proto")
		fe.P.Extension = append(fe.P.Extension,
			&descriptorpb.FieldDescriptorProto{Name: proto.String("only_note"), Number: proto.Int32(58001), Extendee: proto.String(".google.protobuf.MessageOptions"),
				Label: descriptorpb.FieldDescriptorProto_LABEL_OPTIONAL.Enum(), Type: descriptorpb.FieldDescriptorProto_TYPE_STRING.Enum(), JsonName: proto.String("onlyNote")},
			&descriptorpb.FieldDescriptorProto{Name: proto.String("only_rank"), Number: proto.Int32(58002), Extendee: proto.String(".google.protobuf.FieldOptions"),
				Label: descriptorpb.FieldDescriptorProto_LABEL_OPTIONAL.Enum(), Type: descriptorpb.FieldDescriptorProto_TYPE_SINT64.Enum(), JsonName: proto.String("onlyRank")})
		out = append(out, ue)
		un, _ := unit("emptyfile", "file that declares nothing at all")
		out = append(out, un)
	}

	// ---- shadow: a dependency whose Go package is called like a local variable of
	// the generated methods ("options"): the import is shadowed where the foreign
	// type is mentioned (known finding KF-C12-2; witness unit shadow_user)
	{
		fo := NewFile("verif/shadow/options.proto", "verif.shadow", GoRoot+"shadow/options")
		om := fo.Msg("Opt")
		om.F("v", 1, S(Int32))
		out = append(out, &Unit{Name: "shadow/options", File: fo, Label: []string{"Go package named options (imported)"}})
		fu := NewFile("verif/shadow_user.proto", "verif.shadow_user", GoRoot+"shadow_user", "verif/shadow/options.proto")
		um := fu.Msg("Uses")
		um.F("opt", 1, M("verif.shadow.Opt"))
		um.R("opts", 2, M("verif.shadow.Opt"))
		um.Map("by_name", 3, String, M("verif.shadow.Opt"))
		out = append(out, &Unit{Name: "shadow_user", File: fu, Label: []string{"message fields whose type comes from a Go package named options"}})
	}

	// ---- dashpath: directory and file names with dashes (identifiers derived from
	// the path must be sanitised the same way everywhere)
	{
		f := NewFile("verif/billing-api/v1/invoice-v2.proto", "verif.billing_api.v1", GoRoot+"dashpath")
		m := f.Msg("Invoice")
		m.F("number", 1, S(String))
		m.R("lines", 2, M("verif.billing_api.v1.Invoice.Line"))
		ln := m.Nested("Line")
		ln.F("cents", 1, S(Sint64))
		f.Enum("State", "STATE_UNSPECIFIED", 0, "STATE_PAID", 1)
		m.F("state", 3, E("verif.billing_api.v1.State"))
		out = append(out, &Unit{Name: "dashpath", File: f, Label: []string{"proto path with dashes in directory and file name"}})
	}

	// ---- import public: pub_mid re-exports pub_base; pub_user reaches pub_base's
	// types only through pub_mid
	{
		ub, fb := unit("pub_base", "file re-exported by another through import public")
		fb.Enum("Tone", "TONE_UNSPECIFIED", 0, "TONE_LOUD", 2)
		bm := fb.Msg("Base")
		bm.F("id", 1, S(Int64))
		bm.F("tone", 2, E("verif.pub_base.Tone"))
		out = append(out, ub)
		um, fm := unit("pub_mid", "import public of a file of another Go package")
		fm.P.Dependency = append(fm.P.Dependency, "verif/pub_base.proto")
		fm.P.PublicDependency = []int32{0}
		mm := fm.Msg("Mid")
		mm.F("b", 1, M("verif.pub_base.Base"))
		mm.R("tones", 2, E("verif.pub_base.Tone"))
		out = append(out, um)
		uu, fu := unit("pub_user", "uses types it only sees through another file's import public")
		fu.P.Dependency = append(fu.P.Dependency, "verif/pub_mid.proto")
		mu := fu.Msg("User")
		mu.F("mid", 1, M("verif.pub_mid.Mid"))
		mu.F("base", 2, M("verif.pub_base.Base"))
		mu.Map("by_tone", 3, String, E("verif.pub_base.Tone"))
		out = append(out, uu)
	}

	// ---- nopkg: a file without a proto package, whose name has no directory and
	// several dots; its types live in the root namespace
	{
		f := NewFile("verif.no.pkg.v1.proto", "", GoRoot+"nopkg")
		f.P.Package = nil
		f.Enum("NoPkgEnum", "NO_PKG_ENUM_ZERO", 0, "NO_PKG_ENUM_ONE", 1)
		m := f.Msg("NoPkgOuter")
		m.full = "NoPkgOuter"
		m.F("id", 1, S(Uint64))
		m.F("e", 2, E("NoPkgEnum"))
		in := m.Nested("Inner")
		in.F("s", 1, S(String))
		m.R("inners", 3, M("NoPkgOuter.Inner"))
		m.Map("by_key", 4, Sint32, M("NoPkgOuter.Inner"))
		o := m.Oneof("which")
		m.O(o, "a", 5, M("NoPkgOuter.Inner"))
		m.O(o, "b", 6, E("NoPkgEnum"))
		out = append(out, &Unit{Name: "nopkg", File: f, Label: []string{"file without a proto package; file name without directory and with several dots"}})
	}

	// ---- req: a proto3 schema embedding a proto2 message with REQUIRED fields
	// (google.protobuf.UninterpretedOption.NamePart) directly, one level down, in
	// a list, as a map value and in a oneof
	{
		u, f := unit("req", "proto2 message with required fields embedded in proto3 messages: singular, nested one level down, repeated, map value, oneof member")
		f.P.Dependency = append(f.P.Dependency, "google/protobuf/descriptor.proto")
		np := M("google.protobuf.UninterpretedOption.NamePart")
		d := f.Msg("Direct")
		d.F("part", 1, np)
		d.F("note", 2, S(String))
		mid := f.Msg("Mid")
		mid.F("part", 1, np)
		mid.R("parts", 2, np)
		h := f.Msg("Holder")
		h.F("mid", 1, M(mid.Full()))
		h.R("mids", 2, M(mid.Full()))
		k := f.Msg("Keyed")
		k.Map("by_name", 1, String, np)
		k.Map("mids", 2, Int32, M(mid.Full()))
		o := k.Oneof("pick")
		k.O(o, "one", 3, np)
		k.O(o, "other", 4, S(Int64))
		out = append(out, u)
	}

	// ---- longnames: identifiers far beyond 64 characters
	{
		u, f := unit("longnames", "message, nested message, enum and field names of 60-120 characters (derived Go identifiers exceed any fixed length)")
		long := "QueryDelegatorValidatorsResponseWithAnExceptionallyLongMessageNameForTesting"
		m := f.Msg(long)
		m.F("max_change_rate_per_day_expressed_as_a_decimal_fraction_of_the_total_bonded_stake", 1, S(String))
		n1 := m.Nested("ValidatorEntryNestedInsideTheLongMessageWithAnotherLongName")
		n2 := n1.Nested("CommissionRatesNestedTwoLevelsDeepInsideTheLongNamedMessages")
		n2.F("max_change_rate_per_day_expressed_as_a_decimal_fraction_again", 1, S(Double))
		n2.Enum("AnEnumerationWithALongNameNestedThreeLevelsDeepInsideLongNames", "AN_ENUMERATION_VALUE_WITH_A_VERY_LONG_NAME_ZERO", 0, "AN_ENUMERATION_VALUE_WITH_A_VERY_LONG_NAME_ONE", 1)
		n2.F("kind_of_the_commission_rate_as_an_enumeration_value_with_long_name", 2, E(n2.Full()+".AnEnumerationWithALongNameNestedThreeLevelsDeepInsideLongNames"))
		n1.R("rates_as_a_repeated_field_with_a_long_name_for_good_measure_here", 1, M(n2.Full()))
		m.Map("entries_by_validator_operator_address_in_bech32_format_long_name", 2, String, M(n1.Full()))
		o := m.Oneof("a_oneof_with_a_remarkably_long_name_that_goes_on_and_on_for_a_while")
		m.O(o, "first_member_of_the_long_named_oneof_holding_a_nested_message_value", 3, M(n2.Full()))
		m.O(o, "second_member_of_the_long_named_oneof_holding_a_plain_scalar_value", 4, S(Sint64))
		out = append(out, u)
	}

	// ---- oddnames: identifiers that are valid proto but unusual: lower-case and
	// underscored type names, leading / trailing / doubled underscores and
	// capitals in field names, lower-case enum values, custom json_name
	{
		u, f := unit("oddids", "lower-case and underscored message / enum names, odd field identifiers, custom json_name")
		pkg := f.P.GetPackage()
		f.Enum("mode", "mode_off", 0, "MODE_on", 1, "lower_case_value", 2)
		lo := f.Msg("lower")
		lo.F("_x", 1, S(Int32))
		lo.F("y_", 2, S(String))
		lo.F("a__b", 3, S(Bool))
		lo.R("URL", 4, S(String))
		lo.F("cD", 5, S(Bytes))
		lo.Map("Cap_Map", 6, String, E(pkg+".mode"))
		lo.F("m", 7, E(pkg+".mode"))
		in := lo.Nested("inner")
		in.F("v", 1, S(Sint32))
		in.Enum("kind", "kind_zero", 0, "kind_one", 1)
		in.F("k", 2, E(in.Full()+".kind"))
		lo.F("child", 8, M(in.Full()))
		lo.R("children", 9, M(in.Full()))
		o := lo.Oneof("one_Of")
		lo.O(o, "o_a", 10, M(in.Full()))
		lo.O(o, "OB", 11, S(Uint64))
		us := f.Msg("Under_Score")
		us.F("lower", 1, M(lo.Full()))
		us.Map("by_id", 2, Int64, M(lo.Full()))
		fd := us.F("renamed", 3, S(String))
		fd.JsonName = proto.String("customJSON")
		fd = us.R("renamed_list", 4, S(Int32))
		fd.JsonName = proto.String("RENAMED-list")
		fd = us.Map("renamed_map", 5, String, S(Double))
		fd.JsonName = proto.String("map with spaces")
		fd = us.F("renamed_msg", 6, M(in.Full()))
		fd.JsonName = proto.String("@type_like")
		// json names end up inside the struct tag, a raw string literal of the generated source
		fd = us.F("ticked", 8, S(String))
		fd.JsonName = proto.String("col`1")
		fd = us.R("quoted", 9, S(Bytes))
		fd.JsonName = proto.String("quo\"te\\slash `x` \n")
		// lower-case names that begin with letters of the package name
		for i, n := range []string{"version", "event", "item", "field_set", "oddids", "verif"} {
			lm := f.Msg(n)
			lm.F("n", 1, S(Int32))
			rec := lm.Nested("record")
			rec.F("r", 1, S(String))
			lm.R("records", 2, M(rec.Full()))
			us.F("use_"+n, 20+i, M(lm.Full()))
		}
		deep := us.Nested("deep_1").Nested("Deep_2").Nested("deep3")
		deep.F("leaf", 1, S(Fixed32))
		us.F("d", 7, M(deep.Full()))
		out = append(out, u)
	}

	// ---- comments: source info with comments on every kind of element, and
	// deprecated options, which the generator turns into Go comments
	{
		u, f := unit("comments", "leading / trailing / detached comments with odd content on every element", "deprecated file, messages, fields, enums, enum values")
		child, enum := addChildAndEnum(f)
		f.P.Options.Deprecated = proto.Bool(true)
		f.Enum("Mode", "MODE_ZERO", 0, "MODE_OLD", 1, "MODE_NEW", 2)
		f.P.EnumType[len(f.P.EnumType)-1].Options = &descriptorpb.EnumOptions{Deprecated: proto.Bool(true)}
		f.P.EnumType[len(f.P.EnumType)-1].Value[1].Options = &descriptorpb.EnumValueOptions{Deprecated: proto.Bool(true)}
		m := f.Msg("Commented")
		m.P.Options = &descriptorpb.MessageOptions{Deprecated: proto.Bool(true)}
		dep := func(fd *descriptorpb.FieldDescriptorProto) {
			if fd.Options == nil {
				fd.Options = &descriptorpb.FieldOptions{}
			}
			fd.Options.Deprecated = proto.Bool(true)
		}
		dep(m.F("a", 1, S(Int32)))
		m.F("b", 2, S(String))
		dep(m.R("c", 3, S(Sint64)))
		dep(m.Map("d", 4, String, child))
		o := m.Oneof("pick")
		dep(m.O(o, "p_s", 5, S(String)))
		m.O(o, "p_m", 6, child)
		dep(m.F("raw", 7, S(Bytes)))
		dep(m.F("e", 8, E(f.P.GetPackage()+".Mode")))
		m.F("f", 9, enum)
		dep(m.F("child", 10, child))
		in := m.Nested("Inner")
		in.F("x", 1, S(Double))
		in.Enum("Kind", "KIND_ZERO", 0, "KIND_ONE", 1)
		m.R("inners", 11, M(in.Full()))
		svc := &descriptorpb.ServiceDescriptorProto{Name: proto.String("Documented"), Method: []*descriptorpb.MethodDescriptorProto{
			{Name: proto.String("Do"), InputType: proto.String("." + m.Full()), OutputType: proto.String("." + m.Full()), Options: &descriptorpb.MethodOptions{Deprecated: proto.Bool(true)}},
		}}
		f.P.Service = append(f.P.Service, svc)
		texts := []string{
			" simple\n",
			" two\n lines\n",
			" closes a block comment early */ var x = 1 /* and opens one\n",
			" back`tick`, \"double\" and 'single' quotes, a \\ backslash\n",
			" verbs %d %s %v %!d(MISSING) %% %[1]d\n",
			" trailing spaces   \n\n\n blank lines inside\n\n",
			" ünïcödé ☃ 日本語 \U0001F600\n",
			"\tindented with a tab\n\t\tand two\n",
			" Deprecated: this looks like a deprecation notice.\n",
			" literal \\n and \\x00 and \\u0000 escapes\n",
			"no leading space\n",
			" " + strings.Repeat("long ", 1200) + "\n",
			" ends without newline",
			" }{ )( ][ braces\n func init() { panic(1) }\n",
			"",
		}
		k := 0
		next := func() string { k++; return texts[k%len(texts)] }
		var locs []*descriptorpb.SourceCodeInfo_Location
		line := int32(1)
		add := func(path []int32, trailing bool, detached int) {
			l := &descriptorpb.SourceCodeInfo_Location{Path: path, Span: []int32{line, 0, 10}}
			line += 3
			if s := next(); s != "" {
				l.LeadingComments = proto.String(s)
			}
			if trailing {
				l.TrailingComments = proto.String(next())
			}
			for i := 0; i < detached; i++ {
				l.LeadingDetachedComments = append(l.LeadingDetachedComments, next())
			}
			locs = append(locs, l)
		}
		add([]int32{12}, true, 3) // syntax
		add([]int32{2}, true, 2)  // package
		add([]int32{8}, false, 1) // options
		var walk func(md *descriptorpb.DescriptorProto, path []int32)
		enumLocs := func(ed *descriptorpb.EnumDescriptorProto, path []int32) {
			add(path, true, 1)
			for j := range ed.Value {
				add(append(append([]int32{}, path...), 2, int32(j)), j%2 == 0, j%3)
			}
		}
		walk = func(md *descriptorpb.DescriptorProto, path []int32) {
			add(path, true, 2)
			for j := range md.Field {
				add(append(append([]int32{}, path...), 2, int32(j)), j%3 != 2, j%2)
			}
			for j := range md.OneofDecl {
				add(append(append([]int32{}, path...), 8, int32(j)), true, 1)
			}
			for j, ed := range md.EnumType {
				enumLocs(ed, append(append([]int32{}, path...), 4, int32(j)))
			}
			for j, nd := range md.NestedType {
				walk(nd, append(append([]int32{}, path...), 3, int32(j)))
			}
		}
		for i, md := range f.P.MessageType {
			walk(md, []int32{4, int32(i)})
		}
		for i, ed := range f.P.EnumType {
			enumLocs(ed, []int32{5, int32(i)})
		}
		add([]int32{6, 0}, true, 1)
		add([]int32{6, 0, 2, 0}, true, 1)
		f.P.SourceCodeInfo = &descriptorpb.SourceCodeInfo{Location: locs}
		out = append(out, u)
	}

	// ---- scale: counts beyond what a byte, a word of bits or a two-digit index holds
	{
		u, f := unit("scale", "message with 300 fields declared in shuffled number order", "20 interleaved oneofs", "enum with 300 values in descending order", "declarations nested eight deep", "110 messages in one file")
		child, enum := addChildAndEnum(f)
		pkg := f.P.GetPackage()
		bigVals := []interface{}{"BIG_ZERO", 0}
		for i := 299; i >= 1; i-- {
			v := i
			if i%2 == 0 {
				v = -i
			}
			bigVals = append(bigVals, fmt.Sprintf("BIG_%03d", i), v)
		}
		f.Enum("Big", bigVals...)
		big := E(pkg + ".Big")
		cyc := func() []T {
			var ts []T
			for _, k := range ScalarKinds {
				ts = append(ts, S(k))
			}
			return append(ts, enum, child, big)
		}()
		w := f.Msg("Wide")
		for i := 0; i < 300; i++ {
			num := (i*7919)%300 + 1
			t := cyc[num%len(cyc)]
			name := fmt.Sprintf("w%03d", num)
			switch {
			case num%5 == 0:
				w.R(name, num, t)
			case num%11 == 0 && t.Kind != Message:
				w.Map(name, num, KeyKinds[num%len(KeyKinds)], t)
			default:
				w.F(name, num, t)
			}
		}
		mo := f.Msg("ManyOneofs")
		var ids []int
		for i := 0; i < 20; i++ {
			ids = append(ids, mo.Oneof(fmt.Sprintf("one%02d", i)))
		}
		for i := 0; i < 20; i++ { // members are declared together but numbered i+1, i+21, i+41: the oneofs interleave by number
			for r := 0; r < 3; r++ {
				j := r*20 + i
				mo.O(ids[i], fmt.Sprintf("m%02d_%d", i, r), j+1, cyc[j%len(cyc)])
			}
		}
		mo.F("tail", 61, S(String))
		cur := f.Msg("D1")
		cur.F("v", 1, S(Int32))
		chain := []*Msg{cur}
		for d := 2; d <= 8; d++ {
			nx := cur.Nested(fmt.Sprintf("D%d", d))
			nx.F("v", 1, cyc[d])
			chain = append(chain, nx)
			cur = nx
		}
		cur.Enum("Bottom", "BOTTOM_ZERO", 0, "BOTTOM_ONE", 1)
		cur.F("e", 2, E(cur.Full()+".Bottom"))
		for d := 0; d+1 < len(chain); d++ {
			chain[d].F("down", 2, M(chain[d+1].Full()))
			chain[d].R("bottoms", 3, M(cur.Full()))
		}
		w.F("deep", 301, M(cur.Full()))
		for i := 0; i < 110; i++ {
			mm := f.Msg(fmt.Sprintf("M%03d", i))
			mm.F("next", 1, M(fmt.Sprintf("%s.M%03d", pkg, (i+1)%110)))
			mm.F("v", 2, cyc[i%len(cyc)])
		}
		out = append(out, u)
	}

	// ---- pairs: user-declared messages that merely LOOK like map entries
	{
		u, f := unit("pairs", "nested and top-level messages made of exactly key = 1 and value = 2, one of them named <Field>Entry, next to real maps of them")
		o := f.Msg("Outer")
		pr := o.Nested("Pair")
		pr.F("key", 1, S(String))
		pr.F("value", 2, S(String))
		o.R("pairs", 1, M(pr.Full()))
		le := o.Nested("LabelsEntry")
		le.F("key", 1, S(String))
		le.F("value", 2, S(Int32))
		o.R("labels_list", 2, M(le.Full()))
		o.Map("real", 3, String, M(pr.Full()))
		o.F("one", 4, M(pr.Full()))
		top := f.Msg("KeyValue")
		top.F("key", 1, S(Bytes))
		top.F("value", 2, M(top.Full()))
		o.Map("kv", 5, Int32, M(top.Full()))
		ch := o.Oneof("pick")
		o.O(ch, "p", 6, M(pr.Full()))
		o.O(ch, "l", 7, M(le.Full()))
		// reserved numbers and names: part of the schema, so part of the embedded descriptor
		o.P.ReservedRange = []*descriptorpb.DescriptorProto_ReservedRange{{Start: proto.Int32(20), End: proto.Int32(31)}, {Start: proto.Int32(1000), End: proto.Int32(1001)}, {Start: proto.Int32(536870911), End: proto.Int32(536870912)}}
		o.P.ReservedName = []string{"old_pairs", "legacy"}
		pr.P.ReservedRange = []*descriptorpb.DescriptorProto_ReservedRange{{Start: proto.Int32(3), End: proto.Int32(4)}}
		pr.P.ReservedName = []string{"extra"}
		f.Enum("Era", "ERA_UNSPECIFIED", 0, "ERA_NEW", 5)
		era := f.P.EnumType[len(f.P.EnumType)-1]
		era.ReservedRange = []*descriptorpb.EnumDescriptorProto_EnumReservedRange{{Start: proto.Int32(1), End: proto.Int32(4)}, {Start: proto.Int32(-10), End: proto.Int32(-10)}}
		era.ReservedName = []string{"ERA_OLD"}
		o.F("era", 8, E(f.P.GetPackage()+".Era"))
		out = append(out, u)
	}

	return out
}
