package schema

import (
	"testing"

	"google.golang.org/protobuf/reflect/protodesc"
	"google.golang.org/protobuf/reflect/protoreflect"
	"google.golang.org/protobuf/reflect/protoregistry"
	_ "google.golang.org/protobuf/types/known/anypb"
	_ "google.golang.org/protobuf/types/known/durationpb"
	_ "google.golang.org/protobuf/types/known/timestamppb"
)

// every random unit (and pair) is a valid schema
func TestRandomUnitsValid(t *testing.T) {
	same, first := 0, 0
	for seed := uint64(1); seed <= 300; seed++ {
		files := &protoregistry.Files{}
		protoregistry.GlobalFiles.RangeFiles(func(fd protoreflect.FileDescriptor) bool { files.RegisterFile(fd); return true })
		for idx := 0; idx < 4; idx++ {
			u := RandomUnit(seed, idx, nil)
			fd, err := protodesc.NewFile(u.File.P, files)
			if err != nil {
				t.Fatalf("seed %d idx %d: %v", seed, idx, err)
			}
			if err := files.RegisterFile(fd); err != nil {
				t.Fatalf("seed %d idx %d: %v", seed, idx, err)
			}
			for _, l := range u.Label {
				if len(l) > 7 && l[:7] == "sibling" {
					same++
					if u.File.P.GetName()[6] == 'a' {
						first++
					}
				}
			}
		}
	}
	t.Logf("siblings: %d (sorting first: %d) of 600 dependent units", same, first)
}
