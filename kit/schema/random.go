package schema

import (
	"fmt"
	"strings"

	"pgregory.net/rapid"
)

// Name pools for the random schema generator. Collision names are mixed in on
// purpose (C12 quantifies over them).
var methodNames = []string{"descriptor", "type", "new", "interface", "range", "has", "clear", "get", "set", "mutable",
	"new_field", "which_oneof", "get_unknown", "set_unknown", "is_valid", "proto_methods"}
var plainNames = []string{"a", "b", "c", "id", "name", "value", "count", "data", "items", "owner", "flag", "amount",
	"x", "l", "n", "i", "k", "v", "e", "s", "err", "options", "input", "size", "reset", "string", "go", "func", "map",
	"foo_bar", "foo_baz", "q1", "q2", "z9", "alpha", "beta", "gamma", "delta"}

func goCamel(s string) string { return strings.ToLower(camel(s)) }

// RandomUnit draws one valid proto3 file (validity by construction; the caller
// double-checks it with protodesc). avoid lists known-finding classes that
// must not be produced so the search continues behind them:
//
//	"sint_oneof"  – sint32/sint64 members of a oneof
//	"oneof_method_name" – oneofs named after protoreflect.Message methods
func RandomUnit(seed uint64, idx int, avoid map[string]bool) *Unit {
	name := fmt.Sprintf("rnd%d", idx)
	g := rapid.Custom(func(t *rapid.T) *Unit { return drawUnit(t, name, avoid) })
	// Example is a pure function of its seed argument.
	return g.Example(int(seed*1000003 + uint64(idx)*7919 + 1))
}

func drawUnit(t *rapid.T, name string, avoid map[string]bool) *Unit {
	u, f := unit(name, "random schema")
	pkg := f.P.GetPackage()

	// enums
	nEnum := rapid.IntRange(1, 3).Draw(t, "nEnum")
	var enums []T
	for e := 0; e < nEnum; e++ {
		en := fmt.Sprintf("En%d", e)
		nv := rapid.IntRange(1, 5).Draw(t, "nVal")
		vals := []interface{}{strings.ToUpper(en) + "_V0", 0}
		used := map[int]bool{0: true}
		for v := 1; v < nv; v++ {
			num := rapid.OneOf(rapid.IntRange(-3, 10), rapid.SampledFrom([]int{-2147483648, 2147483647, 127, 128, 16384, -1})).Draw(t, "num")
			if used[num] {
				continue
			}
			used[num] = true
			vals = append(vals, fmt.Sprintf("%s_V%d", strings.ToUpper(en), v), num)
		}
		f.Enum(en, vals...)
		enums = append(enums, E(pkg+"."+en))
	}

	// message skeletons first so fields can reference any of them (recursion)
	nMsg := rapid.IntRange(1, 5).Draw(t, "nMsg")
	var msgs []*Msg
	var refs []T
	for m := 0; m < nMsg; m++ {
		var mm *Msg
		if m > 0 && rapid.IntRange(0, 3).Draw(t, "nest") == 0 {
			parent := msgs[rapid.IntRange(0, len(msgs)-1).Draw(t, "parent")]
			mm = parent.Nested(fmt.Sprintf("N%d", m))
		} else {
			mm = f.Msg(fmt.Sprintf("M%d", m))
		}
		msgs = append(msgs, mm)
		refs = append(refs, M(mm.Full()))
	}
	// nested enums inside some messages (order of the generated type tables)
	for i, mm := range msgs {
		if rapid.IntRange(0, 2).Draw(t, "nestedenum") == 0 {
			en := fmt.Sprintf("NE%d", i)
			mm.Enum(en, strings.ToUpper(en)+"_"+fmt.Sprint(i)+"_ZERO", 0, strings.ToUpper(en)+"_"+fmt.Sprint(i)+"_ONE", rapid.IntRange(1, 9).Draw(t, "nev"))
			enums = append(enums, E(mm.Full()+"."+en))
		}
	}
	// well-known types now and then
	wkt := []string{"google.protobuf.Timestamp", "google.protobuf.Any", "google.protobuf.Duration"}
	usedWKT := map[string]bool{}

	numGen := rapid.OneOf(rapid.IntRange(1, 40), rapid.SampledFrom(BoundaryNumbers), rapid.IntRange(1, 536870911))
	drawType := func(allowMsg bool) T {
		switch c := rapid.IntRange(0, 9).Draw(t, "tclass"); {
		case c <= 5:
			return S(rapid.SampledFrom(ScalarKinds).Draw(t, "kind"))
		case c == 6:
			return rapid.SampledFrom(enums).Draw(t, "enum")
		case c == 9 && allowMsg:
			w := rapid.SampledFrom(wkt).Draw(t, "wkt")
			usedWKT[w] = true
			return M(w)
		default:
			if !allowMsg {
				return S(rapid.SampledFrom(ScalarKinds).Draw(t, "kind"))
			}
			return rapid.SampledFrom(refs).Draw(t, "msg")
		}
	}
	for _, mm := range msgs {
		usedNum := map[int]bool{}
		usedName := map[string]bool{}
		pickNum := func() int {
			for {
				n := numGen.Draw(t, "num")
				if usedNum[n] || (n >= 19000 && n <= 19999) {
					continue
				}
				usedNum[n] = true
				return n
			}
		}
		pickName := func(pool []string) string {
			for tries := 0; ; tries++ {
				var n string
				if tries > 20 {
					n = fmt.Sprintf("f%d", len(usedName))
				} else if rapid.IntRange(0, 4).Draw(t, "coll") == 0 {
					n = rapid.SampledFrom(methodNames).Draw(t, "mname")
				} else {
					n = rapid.SampledFrom(pool).Draw(t, "pname")
				}
				k := goCamel(n)
				// protoc-gen-go derives Get<Name>; a field "get_x" beside "x"
				// cannot compile upstream either -> keep names unique modulo that
				if usedName[k] || usedName["get"+k] || (strings.HasPrefix(k, "get") && usedName[strings.TrimPrefix(k, "get")]) {
					continue
				}
				usedName[k] = true
				return n
			}
		}
		nField := rapid.IntRange(0, 10).Draw(t, "nField")
		for i := 0; i < nField; i++ {
			n := pickName(plainNames)
			num := pickNum()
			switch rapid.IntRange(0, 9).Draw(t, "shape") {
			case 0, 1, 2, 3:
				mm.F(n, num, drawType(true))
			case 4, 5:
				mm.R(n, num, drawType(true))
			case 6:
				ty := drawType(false)
				if Packable(ty.Kind) {
					mm.U(n, num, ty)
				} else {
					mm.R(n, num, ty)
				}
			default:
				mm.Map(n, num, rapid.SampledFrom(KeyKinds).Draw(t, "key"), drawType(true))
			}
		}
		nOneof := rapid.IntRange(0, 2).Draw(t, "nOneof")
		for o := 0; o < nOneof; o++ {
			var on string
			for {
				if !avoid["oneof_method_name"] && rapid.IntRange(0, 3).Draw(t, "ocoll") == 0 {
					on = rapid.SampledFrom(methodNames).Draw(t, "oname")
				} else {
					on = fmt.Sprintf("choice%d", o)
				}
				k := goCamel(on)
				if usedName[k] {
					continue
				}
				usedName[k] = true
				break
			}
			oi := mm.Oneof(on)
			nMem := rapid.IntRange(1, 4).Draw(t, "nMem")
			for j := 0; j < nMem; j++ {
				ty := drawType(true)
				if avoid["sint_oneof"] && (ty.Kind == Sint32 || ty.Kind == Sint64) {
					ty = S(Int64)
				}
				mm.O(oi, pickName(plainNames), pickNum(), ty)
			}
		}
	}
	for w := range usedWKT {
		switch w {
		case "google.protobuf.Timestamp":
			f.P.Dependency = append(f.P.Dependency, "google/protobuf/timestamp.proto")
		case "google.protobuf.Any":
			f.P.Dependency = append(f.P.Dependency, "google/protobuf/any.proto")
		case "google.protobuf.Duration":
			f.P.Dependency = append(f.P.Dependency, "google/protobuf/duration.proto")
		}
	}
	sortStrings(f.P.Dependency)
	return u
}

func sortStrings(s []string) {
	for i := 1; i < len(s); i++ {
		for j := i; j > 0 && s[j] < s[j-1]; j-- {
			s[j], s[j-1] = s[j-1], s[j]
		}
	}
}
