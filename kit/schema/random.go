package schema

import (
	"fmt"
	"strings"

	"google.golang.org/protobuf/proto"
	"google.golang.org/protobuf/types/descriptorpb"
	"pgregory.net/rapid"
)

// Name pools for the random schema generator. Collision names are mixed in on
// purpose (C12 quantifies over them).
var methodNames = []string{"descriptor", "type", "new", "interface", "range", "has", "clear", "get", "set", "mutable",
	"new_field", "which_oneof", "get_unknown", "set_unknown", "is_valid", "proto_methods"}
var plainNames = []string{"a", "b", "c", "id", "name", "value", "count", "data", "items", "owner", "flag", "amount",
	"x", "l", "n", "i", "k", "v", "e", "s", "err", "options", "input", "size", "reset", "string", "go", "func", "map",
	"foo_bar", "foo_baz", "q1", "q2", "z9", "alpha", "beta", "gamma", "delta",
	// odd but valid identifiers
	"_x", "x_", "a__b", "_", "A", "aB", "URL", "a_1", "x_y_z", "X_y", "fooBar", "foo_Bar", "FOO", "Name", "ID", "m_0", "n1_x", "En0", "M0"}

func goCamel(s string) string { return strings.ToLower(camel(s)) }

// RandomUnit draws one valid proto3 file (validity by construction; the caller
// double-checks it with protodesc). avoid lists known-finding classes that
// must not be produced so the search continues behind them:
//
//	"sint_oneof"  – sint32/sint64 members of a oneof
//	"oneof_method_name" – oneofs named after protoreflect.Message methods
//
// Random units come in pairs: unit 2k+1 imports unit 2k and uses its messages
// and enums in every position; half of the time it lives in the SAME Go
// package as unit 2k (its own .proto file and proto package, sorted before or
// after its sibling), otherwise in a Go package of its own.
func RandomUnit(seed uint64, idx int, avoid map[string]bool) *Unit {
	name := fmt.Sprintf("rnd%d", idx)
	var prev *Unit
	if idx%2 == 1 {
		prev = RandomUnit(seed, idx-1, avoid)
	}
	g := rapid.Custom(func(t *rapid.T) *Unit { return drawUnit(t, name, avoid, prev) })
	// Example is a pure function of its seed argument.
	return g.Example(int(seed*1000003 + uint64(idx)*7919 + 1))
}

// declared lists the full names of the messages (map entries excluded) and
// enums a file declares.
func declared(fp *descriptorpb.FileDescriptorProto) (msgs, enums []string) {
	var walk func(prefix string, m *descriptorpb.DescriptorProto)
	walk = func(prefix string, m *descriptorpb.DescriptorProto) {
		if m.GetOptions().GetMapEntry() {
			return
		}
		full := prefix + "." + m.GetName()
		msgs = append(msgs, full)
		for _, e := range m.EnumType {
			enums = append(enums, full+"."+e.GetName())
		}
		for _, n := range m.NestedType {
			walk(full, n)
		}
	}
	for _, e := range fp.EnumType {
		enums = append(enums, fp.GetPackage()+"."+e.GetName())
	}
	for _, m := range fp.MessageType {
		walk(fp.GetPackage(), m)
	}
	return
}

func drawUnit(t *rapid.T, name string, avoid map[string]bool, prev *Unit) *Unit {
	u, f := unit(name, "random schema")
	// type-name prefix: siblings of one Go package must not declare the same Go identifiers
	tp := ""
	var prevMsgs, prevEnums []T
	if prev != nil {
		pm, pe := declared(prev.File.P)
		for _, n := range pm {
			prevMsgs = append(prevMsgs, M(n))
		}
		for _, n := range pe {
			prevEnums = append(prevEnums, E(n))
		}
		if rapid.Bool().Draw(t, "samePackage") {
			tp = "S"
			fname := "verif/" + name + ".proto"
			if rapid.Bool().Draw(t, "sortsFirst") {
				fname = "verif/a_" + name + ".proto" // its generated file is initialised before its sibling's
			}
			f = NewFile(fname, "verif."+name, prev.File.P.GetOptions().GetGoPackage())
			u = &Unit{Name: name, File: f, Label: []string{"random schema", "sibling of " + prev.Name + " in one Go package (" + fname + ")"}}
		} else {
			u.Label = append(u.Label, "imports "+prev.Name+" across Go packages")
		}
		f.P.Dependency = append(f.P.Dependency, prev.File.P.GetName())
	}
	pkg := f.P.GetPackage()

	// enums
	nEnum := rapid.IntRange(1, 3).Draw(t, "nEnum")
	var enums []T
	for e := 0; e < nEnum; e++ {
		en := fmt.Sprintf("%sEn%d", tp, e)
		nv := rapid.IntRange(1, 5).Draw(t, "nVal")
		vals := []interface{}{strings.ToUpper(en) + "_V0", 0}
		used := map[int]bool{0: true}
		for v := 1; v < nv; v++ {
			num := rapid.OneOf(rapid.IntRange(-3, 10), rapid.SampledFrom([]int{-2147483648, 2147483647, 127, 128, 16384, -1, 0, 0})).Draw(t, "num")
			if used[num] {
				// an alias (also of the zero value) whose name sorts before the names declared so far
				if rapid.Bool().Draw(t, "alias") {
					vals = append(vals, fmt.Sprintf("%s_A%d", strings.ToUpper(en), v), num)
				}
				continue
			}
			used[num] = true
			vals = append(vals, fmt.Sprintf("%s_V%d", strings.ToUpper(en), v), num)
		}
		f.Enum(en, vals...)
		enums = append(enums, E(pkg+"."+en))
	}

	// message skeletons first so fields can reference any of them (recursion)
	nMsg := rapid.IntRange(1, 5).Draw(t, "nMsg")
	var msgs []*Msg
	var refs []T
	for m := 0; m < nMsg; m++ {
		var mm *Msg
		if m > 0 && rapid.IntRange(0, 3).Draw(t, "nest") == 0 {
			parent := msgs[rapid.IntRange(0, len(msgs)-1).Draw(t, "parent")]
			mm = parent.Nested(fmt.Sprintf("N%d", m))
		} else {
			mn := fmt.Sprintf("%sM%d", tp, m)
			if rapid.IntRange(0, 3).Draw(t, "lowername") == 0 {
				// lower-case / underscored type names are valid proto
				mn = fmt.Sprintf("%s%s%d", strings.ToLower(tp), rapid.SampledFrom([]string{"item", "event", "record", "value_", "node_x", "rnd", "verif"}).Draw(t, "lname"), m)
			}
			mm = f.Msg(mn)
		}
		msgs = append(msgs, mm)
		refs = append(refs, M(mm.Full()))
	}
	// nested enums inside some messages (order of the generated type tables)
	for i, mm := range msgs {
		if rapid.IntRange(0, 2).Draw(t, "nestedenum") == 0 {
			en := fmt.Sprintf("NE%d", i)
			mm.Enum(en, strings.ToUpper(en)+"_"+fmt.Sprint(i)+"_ZERO", 0, strings.ToUpper(en)+"_"+fmt.Sprint(i)+"_ONE", rapid.IntRange(1, 9).Draw(t, "nev"))
			enums = append(enums, E(mm.Full()+"."+en))
		}
	}
	// well-known types now and then
	wkt := []string{"google.protobuf.Timestamp", "google.protobuf.Any", "google.protobuf.Duration"}
	usedWKT := map[string]bool{}

	usedPrev := false
	numGen := rapid.OneOf(rapid.IntRange(1, 40), rapid.SampledFrom(BoundaryNumbers), rapid.IntRange(1, 536870911))
	drawType := func(allowMsg bool) T {
		if prev != nil && rapid.IntRange(0, 3).Draw(t, "fromImport") == 0 {
			// a type of the imported unit (always drawn; the import is then used)
			if allowMsg && len(prevMsgs) > 0 && (len(prevEnums) == 0 || rapid.Bool().Draw(t, "importedMsg")) {
				usedPrev = true
				return rapid.SampledFrom(prevMsgs).Draw(t, "pmsg")
			}
			if len(prevEnums) > 0 {
				usedPrev = true
				return rapid.SampledFrom(prevEnums).Draw(t, "penum")
			}
		}
		switch c := rapid.IntRange(0, 9).Draw(t, "tclass"); {
		case c <= 5:
			return S(rapid.SampledFrom(ScalarKinds).Draw(t, "kind"))
		case c == 6:
			return rapid.SampledFrom(enums).Draw(t, "enum")
		case c == 9 && allowMsg:
			w := rapid.SampledFrom(wkt).Draw(t, "wkt")
			usedWKT[w] = true
			return M(w)
		default:
			if !allowMsg {
				return S(rapid.SampledFrom(ScalarKinds).Draw(t, "kind"))
			}
			return rapid.SampledFrom(refs).Draw(t, "msg")
		}
	}
	for _, mm := range msgs {
		usedNum := map[int]bool{}
		usedName := map[string]bool{}
		pickNum := func() int {
			for {
				n := numGen.Draw(t, "num")
				if usedNum[n] || (n >= 19000 && n <= 19999) {
					continue
				}
				usedNum[n] = true
				return n
			}
		}
		pickName := func(pool []string) string {
			for tries := 0; ; tries++ {
				var n string
				if tries > 20 {
					n = fmt.Sprintf("f%d", len(usedName))
				} else if rapid.IntRange(0, 4).Draw(t, "coll") == 0 {
					n = rapid.SampledFrom(methodNames).Draw(t, "mname")
				} else {
					n = rapid.SampledFrom(pool).Draw(t, "pname")
				}
				k := goCamel(n)
				// protoc-gen-go derives Get<Name>; a field "get_x" beside "x"
				// cannot compile upstream either -> keep names unique modulo that
				if usedName[k] || usedName["get"+k] || (strings.HasPrefix(k, "get") && usedName[strings.TrimPrefix(k, "get")]) {
					continue
				}
				usedName[k] = true
				return n
			}
		}
		// a custom json_name now and then (unique by construction)
		jn := func(fd *descriptorpb.FieldDescriptorProto) {
			if rapid.IntRange(0, 7).Draw(t, "jsonname") == 0 {
				fd.JsonName = proto.String(fmt.Sprintf("jn %d-%s", fd.GetNumber(), rapid.SampledFrom([]string{"x", "Y", "@z", "with space", "ünï", "tick`", "q\"uote", "back\\slash"}).Draw(t, "jn")))
			}
		}
		nField := rapid.IntRange(0, 10).Draw(t, "nField")
		for i := 0; i < nField; i++ {
			n := pickName(plainNames)
			num := pickNum()
			switch rapid.IntRange(0, 9).Draw(t, "shape") {
			case 0, 1, 2, 3:
				jn(mm.F(n, num, drawType(true)))
			case 4, 5:
				jn(mm.R(n, num, drawType(true)))
			case 6:
				ty := drawType(false)
				if Packable(ty.Kind) {
					jn(mm.U(n, num, ty))
				} else {
					jn(mm.R(n, num, ty))
				}
			default:
				jn(mm.Map(n, num, rapid.SampledFrom(KeyKinds).Draw(t, "key"), drawType(true)))
			}
		}
		nOneof := rapid.IntRange(0, 2).Draw(t, "nOneof")
		for o := 0; o < nOneof; o++ {
			var on string
			for {
				if !avoid["oneof_method_name"] && rapid.IntRange(0, 3).Draw(t, "ocoll") == 0 {
					on = rapid.SampledFrom(methodNames).Draw(t, "oname")
				} else {
					on = fmt.Sprintf("choice%d", o)
				}
				k := goCamel(on)
				if usedName[k] {
					continue
				}
				usedName[k] = true
				break
			}
			oi := mm.Oneof(on)
			nMem := rapid.IntRange(1, 4).Draw(t, "nMem")
			for j := 0; j < nMem; j++ {
				ty := drawType(true)
				if avoid["sint_oneof"] && (ty.Kind == Sint32 || ty.Kind == Sint64) {
					ty = S(Int64)
				}
				jn(mm.O(oi, pickName(plainNames), pickNum(), ty))
			}
		}
	}
	for w := range usedWKT {
		switch w {
		case "google.protobuf.Timestamp":
			f.P.Dependency = append(f.P.Dependency, "google/protobuf/timestamp.proto")
		case "google.protobuf.Any":
			f.P.Dependency = append(f.P.Dependency, "google/protobuf/any.proto")
		case "google.protobuf.Duration":
			f.P.Dependency = append(f.P.Dependency, "google/protobuf/duration.proto")
		}
	}
	// services now and then (they only show in the registered descriptor)
	nSvc := rapid.IntRange(0, 2).Draw(t, "nSvc")
	for sv := 0; sv < nSvc; sv++ {
		svc := &descriptorpb.ServiceDescriptorProto{Name: proto.String(fmt.Sprintf("%sSvc%d", tp, sv))}
		nMeth := rapid.IntRange(0, 4).Draw(t, "nMeth")
		pool := append(append([]T{}, refs...), prevMsgs...)
		for mi := 0; mi < nMeth; mi++ {
			in := rapid.SampledFrom(pool).Draw(t, "in")
			outT := rapid.SampledFrom(pool).Draw(t, "out")
			if prev != nil && (strings.HasPrefix(in.Ref, prev.File.P.GetPackage()+".") || strings.HasPrefix(outT.Ref, prev.File.P.GetPackage()+".")) {
				usedPrev = true
			}
			md := &descriptorpb.MethodDescriptorProto{Name: proto.String(fmt.Sprintf("Call%d", mi)), InputType: proto.String("." + in.Ref), OutputType: proto.String("." + outT.Ref)}
			// an explicit "false" is not kept by descriptor round trips: set only when true
			if rapid.IntRange(0, 3).Draw(t, "cs") == 0 {
				md.ClientStreaming = proto.Bool(true)
			}
			if rapid.IntRange(0, 3).Draw(t, "ss") == 0 {
				md.ServerStreaming = proto.Bool(true)
			}
			svc.Method = append(svc.Method, md)
		}
		f.P.Service = append(f.P.Service, svc)
	}
	if prev != nil && !usedPrev {
		// an unused import is legal but uninteresting: use it once
		num := 18999
		for taken := true; taken; {
			taken = false
			for _, fd := range msgs[0].P.Field {
				if int(fd.GetNumber()) == num {
					taken = true
					num--
				}
			}
		}
		switch {
		case len(prevMsgs) > 0:
			msgs[0].F("imported_once", num, prevMsgs[0])
		case len(prevEnums) > 0:
			msgs[0].F("imported_once", num, prevEnums[0])
		}
	}
	sortStrings(f.P.Dependency)
	return u
}

func sortStrings(s []string) {
	for i := 1; i < len(s); i++ {
		for j := i; j > 0 && s[j] < s[j-1]; j-- {
			s[j], s[j-1] = s[j-1], s[j]
		}
	}
}
