package schema

import (
	"math"

	"google.golang.org/protobuf/encoding/protowire"
	"google.golang.org/protobuf/proto"
	"google.golang.org/protobuf/reflect/protoreflect"
	"google.golang.org/protobuf/types/descriptorpb"
)

// customOptsUnit declares its own custom options (extensions of every
// descriptor.proto options message, of every scalar kind plus enum, message and
// repeated) and uses them. The plugin binary has never heard of these
// extensions, so they reach it as unknown fields of the options messages; the
// generated package registers them, so the registered descriptor must show them
// typed and equal to the request.
func customOptsUnit() *Unit {
	u, f := unit("customopts", "custom options declared in the schema itself (unknown to the plugin): every scalar kind, enum, message, repeated; on file, message, field, oneof, enum, enum value, service and method")
	f.P.Dependency = append(f.P.Dependency, "google/protobuf/descriptor.proto")
	pkg := f.P.GetPackage()
	f.Enum("Level", "LEVEL_UNSPECIFIED", 0, "LEVEL_LOW", 1, "LEVEL_HIGH", 7)
	meta := f.Msg("Meta")
	meta.F("note", 1, S(String))
	meta.F("weight", 2, S(Double))
	meta.R("ids", 3, S(Fixed64))

	kinds := []K{Double, Float, Int32, Int64, Uint32, Uint64, Sint32, Sint64, Fixed32, Fixed64, Sfixed32, Sfixed64, Bool, String, Bytes}
	type ext struct {
		num  int32
		kind K
		ref  string
		rep  bool
	}
	targets := []struct {
		extendee string
		base     int32
	}{
		{".google.protobuf.FileOptions", 50000}, {".google.protobuf.MessageOptions", 51000}, {".google.protobuf.FieldOptions", 52000},
		{".google.protobuf.OneofOptions", 53000}, {".google.protobuf.EnumOptions", 54000}, {".google.protobuf.EnumValueOptions", 55000},
		{".google.protobuf.ServiceOptions", 56000}, {".google.protobuf.MethodOptions", 57000},
	}
	short := map[string]string{".google.protobuf.FileOptions": "file", ".google.protobuf.MessageOptions": "msg", ".google.protobuf.FieldOptions": "fld",
		".google.protobuf.OneofOptions": "oneof", ".google.protobuf.EnumOptions": "enum", ".google.protobuf.EnumValueOptions": "val",
		".google.protobuf.ServiceOptions": "svc", ".google.protobuf.MethodOptions": "meth"}
	exts := map[string][]ext{}
	declared := map[string][]*descriptorpb.FieldDescriptorProto{}
	for _, tg := range targets {
		n := tg.base
		add := func(name string, e ext) {
			n++
			e.num = n
			fd := &descriptorpb.FieldDescriptorProto{Name: proto.String(short[tg.extendee] + "_" + name), Number: proto.Int32(n), Extendee: proto.String(tg.extendee),
				Label: descriptorpb.FieldDescriptorProto_LABEL_OPTIONAL.Enum(), Type: e.kind.Enum(), JsonName: proto.String(JSONName(short[tg.extendee] + "_" + name))}
			if e.rep {
				fd.Label = descriptorpb.FieldDescriptorProto_LABEL_REPEATED.Enum()
			}
			if e.ref != "" {
				fd.TypeName = proto.String("." + e.ref)
			}
			declared[tg.extendee] = append(declared[tg.extendee], fd)
			exts[tg.extendee] = append(exts[tg.extendee], e)
		}
		for _, k := range kinds {
			add(KindName(k), ext{kind: k})
		}
		add("level", ext{kind: Enum, ref: pkg + ".Level"})
		add("meta", ext{kind: Message, ref: pkg + ".Meta"})
		add("names", ext{kind: String, rep: true})
		add("weights", ext{kind: Double, rep: true}) // proto3 extension: packed by default is not implied for extensions; encoded unpacked below
	}
	// declaration order interleaves the extended messages (file, message, field,
	// ..., file, message, ...): tables the generator groups by extendee must still
	// line up with the declaration order of the descriptor
	for i := 0; ; i++ {
		any := false
		for _, tg := range targets {
			if i < len(declared[tg.extendee]) {
				f.P.Extension = append(f.P.Extension, declared[tg.extendee][i])
				any = true
			}
		}
		if !any {
			break
		}
	}
	// raw encoding of one value per declared extension
	raw := func(extendee string, salt uint64) []byte {
		var b []byte
		for _, e := range exts[extendee] {
			num := protowire.Number(e.num)
			switch e.kind {
			case Double:
				vals := []float64{1.5 + float64(salt), math.Inf(-1)}
				if !e.rep {
					vals = vals[:1]
				}
				for _, v := range vals {
					b = protowire.AppendTag(b, num, protowire.Fixed64Type)
					b = protowire.AppendFixed64(b, math.Float64bits(v))
				}
			case Float:
				b = protowire.AppendTag(b, num, protowire.Fixed32Type)
				b = protowire.AppendFixed32(b, math.Float32bits(2.25))
			case Fixed64, Sfixed64:
				b = protowire.AppendTag(b, num, protowire.Fixed64Type)
				b = protowire.AppendFixed64(b, 0xfedcba9876543210^salt)
			case Fixed32, Sfixed32:
				b = protowire.AppendTag(b, num, protowire.Fixed32Type)
				b = protowire.AppendFixed32(b, 0x89abcdef)
			case Int32, Int64:
				b = protowire.AppendTag(b, num, protowire.VarintType)
				neg := int64(-7)
				b = protowire.AppendVarint(b, uint64(neg))
			case Uint32, Uint64, Enum:
				b = protowire.AppendTag(b, num, protowire.VarintType)
				b = protowire.AppendVarint(b, 7)
			case Sint32, Sint64:
				b = protowire.AppendTag(b, num, protowire.VarintType)
				b = protowire.AppendVarint(b, protowire.EncodeZigZag(-300))
			case Bool:
				b = protowire.AppendTag(b, num, protowire.VarintType)
				b = protowire.AppendVarint(b, 1)
			case String:
				vals := []string{"opt-ü", "second"}
				if !e.rep {
					vals = vals[:1]
				}
				for _, v := range vals {
					b = protowire.AppendTag(b, num, protowire.BytesType)
					b = protowire.AppendString(b, v)
				}
			case Bytes:
				b = protowire.AppendTag(b, num, protowire.BytesType)
				b = protowire.AppendBytes(b, []byte{0, 0xff, 0x80})
			case Message:
				var mb []byte
				mb = protowire.AppendTag(mb, 1, protowire.BytesType)
				mb = protowire.AppendString(mb, "meta")
				mb = protowire.AppendTag(mb, 2, protowire.Fixed64Type)
				mb = protowire.AppendFixed64(mb, math.Float64bits(-0.5))
				mb = protowire.AppendTag(mb, 3, protowire.BytesType)
				mb = protowire.AppendBytes(mb, protowire.AppendFixed64(protowire.AppendFixed64(nil, 1), math.MaxUint64))
				b = protowire.AppendTag(b, num, protowire.BytesType)
				b = protowire.AppendBytes(b, mb)
			}
		}
		return b
	}
	setRaw := func(m proto.Message, extendee string, salt uint64) {
		m.ProtoReflect().SetUnknown(protoreflect.RawFields(raw(extendee, salt)))
	}
	setRaw(f.P.Options, ".google.protobuf.FileOptions", 0)

	tg := f.Msg("Tagged")
	tg.P.Options = &descriptorpb.MessageOptions{}
	setRaw(tg.P.Options, ".google.protobuf.MessageOptions", 1)
	fd := tg.F("a", 1, S(Int64))
	fd.Options = &descriptorpb.FieldOptions{}
	setRaw(fd.Options, ".google.protobuf.FieldOptions", 2)
	fd = tg.R("b", 2, S(Double))
	fd.Options = &descriptorpb.FieldOptions{}
	setRaw(fd.Options, ".google.protobuf.FieldOptions", 3)
	fd = tg.Map("c", 3, String, M(pkg+".Meta"))
	fd.Options = &descriptorpb.FieldOptions{}
	setRaw(fd.Options, ".google.protobuf.FieldOptions", 4)
	o := tg.Oneof("pick")
	tg.P.OneofDecl[o].Options = &descriptorpb.OneofOptions{}
	setRaw(tg.P.OneofDecl[o].Options, ".google.protobuf.OneofOptions", 5)
	fd = tg.O(o, "pm", 4, M(pkg+".Meta"))
	fd.Options = &descriptorpb.FieldOptions{}
	setRaw(fd.Options, ".google.protobuf.FieldOptions", 6)
	tg.O(o, "pl", 5, E(pkg+".Level"))
	in := tg.Nested("Inner")
	in.P.Options = &descriptorpb.MessageOptions{}
	setRaw(in.P.Options, ".google.protobuf.MessageOptions", 7)
	in.F("x", 1, S(Bytes))
	tg.F("inner", 6, M(in.Full()))
	// the documentation's idiom: a message that declares, in a nested extend
	// block, the option whose type it is
	opts := f.Msg("Opts")
	opts.F("rank", 1, S(Int32))
	opts.F("label", 2, S(String))
	opts.P.Extension = append(opts.P.Extension,
		&descriptorpb.FieldDescriptorProto{Name: proto.String("opts"), Number: proto.Int32(52900), Extendee: proto.String(".google.protobuf.FieldOptions"),
			Label: descriptorpb.FieldDescriptorProto_LABEL_OPTIONAL.Enum(), Type: descriptorpb.FieldDescriptorProto_TYPE_MESSAGE.Enum(), TypeName: proto.String("." + opts.Full()), JsonName: proto.String("opts")},
		&descriptorpb.FieldDescriptorProto{Name: proto.String("msg_opts"), Number: proto.Int32(51900), Extendee: proto.String(".google.protobuf.MessageOptions"),
			Label: descriptorpb.FieldDescriptorProto_LABEL_REPEATED.Enum(), Type: descriptorpb.FieldDescriptorProto_TYPE_MESSAGE.Enum(), TypeName: proto.String("." + opts.Full()), JsonName: proto.String("msgOpts")})
	uo := f.Msg("UsesOpts")
	ufd := uo.F("ranked", 1, S(String))
	ufd.Options = &descriptorpb.FieldOptions{}
	{
		var ob []byte
		ob = protowire.AppendVarint(protowire.AppendTag(ob, 1, protowire.VarintType), 3)
		ob = protowire.AppendString(protowire.AppendTag(ob, 2, protowire.BytesType), "third")
		ufd.Options.ProtoReflect().SetUnknown(protowire.AppendBytes(protowire.AppendTag(nil, 52900, protowire.BytesType), ob))
	}
	plain := f.Msg("Plain") // a message without options next to ones with
	plain.F("t", 1, M(tg.Full()))

	lv := f.P.EnumType[0]
	lv.Options = &descriptorpb.EnumOptions{}
	setRaw(lv.Options, ".google.protobuf.EnumOptions", 8)
	lv.Value[1].Options = &descriptorpb.EnumValueOptions{}
	setRaw(lv.Value[1].Options, ".google.protobuf.EnumValueOptions", 9)

	svc := &descriptorpb.ServiceDescriptorProto{Name: proto.String("Tagger"), Options: &descriptorpb.ServiceOptions{}}
	setRaw(svc.Options, ".google.protobuf.ServiceOptions", 10)
	md := &descriptorpb.MethodDescriptorProto{Name: proto.String("Tag"), InputType: proto.String("." + plain.Full()), OutputType: proto.String("." + tg.Full()), Options: &descriptorpb.MethodOptions{}}
	setRaw(md.Options, ".google.protobuf.MethodOptions", 11)
	svc.Method = append(svc.Method, md, &descriptorpb.MethodDescriptorProto{Name: proto.String("Untag"), InputType: proto.String("." + tg.Full()), OutputType: proto.String("." + meta.Full())})
	f.P.Service = append(f.P.Service, svc)
	return u
}
