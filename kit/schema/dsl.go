// Package schema builds the proto3 schema corpus fed to the working-tree
// protoc-gen-go-pulsar plugin. There is no protoc in the sandbox, so schemas
// are constructed directly as FileDescriptorProtos (json_name filled the way
// protoc does) and validated with protodesc before use.
package schema

import (
	"fmt"
	"strings"

	"google.golang.org/protobuf/proto"
	"google.golang.org/protobuf/types/descriptorpb"
)

type K = descriptorpb.FieldDescriptorProto_Type

const (
	Double   = descriptorpb.FieldDescriptorProto_TYPE_DOUBLE
	Float    = descriptorpb.FieldDescriptorProto_TYPE_FLOAT
	Int64    = descriptorpb.FieldDescriptorProto_TYPE_INT64
	Uint64   = descriptorpb.FieldDescriptorProto_TYPE_UINT64
	Int32    = descriptorpb.FieldDescriptorProto_TYPE_INT32
	Fixed64  = descriptorpb.FieldDescriptorProto_TYPE_FIXED64
	Fixed32  = descriptorpb.FieldDescriptorProto_TYPE_FIXED32
	Bool     = descriptorpb.FieldDescriptorProto_TYPE_BOOL
	String   = descriptorpb.FieldDescriptorProto_TYPE_STRING
	Message  = descriptorpb.FieldDescriptorProto_TYPE_MESSAGE
	Bytes    = descriptorpb.FieldDescriptorProto_TYPE_BYTES
	Uint32   = descriptorpb.FieldDescriptorProto_TYPE_UINT32
	Enum     = descriptorpb.FieldDescriptorProto_TYPE_ENUM
	Sfixed32 = descriptorpb.FieldDescriptorProto_TYPE_SFIXED32
	Sfixed64 = descriptorpb.FieldDescriptorProto_TYPE_SFIXED64
	Sint32   = descriptorpb.FieldDescriptorProto_TYPE_SINT32
	Sint64   = descriptorpb.FieldDescriptorProto_TYPE_SINT64
)

// ScalarKinds are the 15 scalar kinds of proto3 in a fixed order.
var ScalarKinds = []K{Double, Float, Int32, Int64, Uint32, Uint64, Sint32, Sint64, Fixed32, Fixed64, Sfixed32, Sfixed64, Bool, String, Bytes}

// KeyKinds are the 12 kinds allowed as map keys.
var KeyKinds = []K{Int32, Int64, Uint32, Uint64, Sint32, Sint64, Fixed32, Fixed64, Sfixed32, Sfixed64, Bool, String}

func KindName(k K) string {
	return strings.ToLower(strings.TrimPrefix(k.String(), "TYPE_"))
}

// Packable reports whether repeated fields of this kind can be packed.
func Packable(k K) bool {
	switch k {
	case String, Bytes, Message:
		return false
	}
	return true
}

// T is a field type: a scalar kind, or an enum/message reference by full name
// (leading dot added automatically).
type T struct {
	Kind K
	Ref  string
}

func S(k K) T          { return T{Kind: k} }
func M(full string) T  { return T{Kind: Message, Ref: full} }
func E(full string) T  { return T{Kind: Enum, Ref: full} }
func (t T) ref() *string {
	if t.Ref == "" {
		return nil
	}
	r := t.Ref
	if !strings.HasPrefix(r, ".") {
		r = "." + r
	}
	return &r
}

type File struct {
	P *descriptorpb.FileDescriptorProto
}

// NewFile starts a proto3 file. goPkg is the full Go import path.
func NewFile(name, pkg, goPkg string, deps ...string) *File {
	return &File{P: &descriptorpb.FileDescriptorProto{
		Name:       proto.String(name),
		Package:    proto.String(pkg),
		Syntax:     proto.String("proto3"),
		Dependency: deps,
		Options:    &descriptorpb.FileOptions{GoPackage: proto.String(goPkg)},
	}}
}

type Msg struct {
	P    *descriptorpb.DescriptorProto
	full string
}

func (f *File) Msg(name string) *Msg {
	m := &Msg{P: &descriptorpb.DescriptorProto{Name: proto.String(name)}, full: f.P.GetPackage() + "." + name}
	f.P.MessageType = append(f.P.MessageType, m.P)
	return m
}

func (f *File) Enum(name string, vals ...interface{}) {
	f.P.EnumType = append(f.P.EnumType, mkEnum(name, vals...))
}

// mkEnum takes alternating name, number pairs. Aliases are allowed
// automatically when a number repeats.
func mkEnum(name string, vals ...interface{}) *descriptorpb.EnumDescriptorProto {
	e := &descriptorpb.EnumDescriptorProto{Name: proto.String(name)}
	seen := map[int32]bool{}
	for i := 0; i+1 < len(vals); i += 2 {
		n := int32(vals[i+1].(int))
		if seen[n] {
			if e.Options == nil {
				e.Options = &descriptorpb.EnumOptions{}
			}
			e.Options.AllowAlias = proto.Bool(true)
		}
		seen[n] = true
		e.Value = append(e.Value, &descriptorpb.EnumValueDescriptorProto{Name: proto.String(vals[i].(string)), Number: proto.Int32(n)})
	}
	return e
}

func (m *Msg) Full() string { return m.full }

func (m *Msg) Nested(name string) *Msg {
	n := &Msg{P: &descriptorpb.DescriptorProto{Name: proto.String(name)}, full: m.full + "." + name}
	m.P.NestedType = append(m.P.NestedType, n.P)
	return n
}

func (m *Msg) Enum(name string, vals ...interface{}) {
	m.P.EnumType = append(m.P.EnumType, mkEnum(name, vals...))
}

// JSONName mirrors protoc's ToJsonName.
func JSONName(s string) string {
	var b strings.Builder
	up := false
	for _, c := range s {
		if c == '_' {
			up = true
			continue
		}
		if up && c >= 'a' && c <= 'z' {
			c -= 'a' - 'A'
		}
		up = false
		b.WriteRune(c)
	}
	return b.String()
}

func (m *Msg) field(name string, num int, t T, label descriptorpb.FieldDescriptorProto_Label) *descriptorpb.FieldDescriptorProto {
	fd := &descriptorpb.FieldDescriptorProto{
		Name:     proto.String(name),
		Number:   proto.Int32(int32(num)),
		Label:    label.Enum(),
		Type:     t.Kind.Enum(),
		TypeName: t.ref(),
		JsonName: proto.String(JSONName(name)),
	}
	m.P.Field = append(m.P.Field, fd)
	return fd
}

// F adds a singular field.
func (m *Msg) F(name string, num int, t T) *descriptorpb.FieldDescriptorProto {
	return m.field(name, num, t, descriptorpb.FieldDescriptorProto_LABEL_OPTIONAL)
}

// R adds a repeated field (packed by default for packable kinds in proto3).
func (m *Msg) R(name string, num int, t T) *descriptorpb.FieldDescriptorProto {
	return m.field(name, num, t, descriptorpb.FieldDescriptorProto_LABEL_REPEATED)
}

// U adds a repeated field declared [packed=false].
func (m *Msg) U(name string, num int, t T) *descriptorpb.FieldDescriptorProto {
	fd := m.field(name, num, t, descriptorpb.FieldDescriptorProto_LABEL_REPEATED)
	fd.Options = &descriptorpb.FieldOptions{Packed: proto.Bool(false)}
	return fd
}

// Oneof declares a oneof and returns its index.
func (m *Msg) Oneof(name string) int {
	m.P.OneofDecl = append(m.P.OneofDecl, &descriptorpb.OneofDescriptorProto{Name: proto.String(name)})
	return len(m.P.OneofDecl) - 1
}

// O adds a oneof member.
func (m *Msg) O(oneof int, name string, num int, t T) *descriptorpb.FieldDescriptorProto {
	fd := m.field(name, num, t, descriptorpb.FieldDescriptorProto_LABEL_OPTIONAL)
	fd.OneofIndex = proto.Int32(int32(oneof))
	return fd
}

func camel(s string) string {
	// protoc's map entry name: CamelCase(field name) + "Entry"
	var b strings.Builder
	up := true
	for _, c := range s {
		if c == '_' {
			up = true
			continue
		}
		if up && c >= 'a' && c <= 'z' {
			c -= 'a' - 'A'
		}
		up = false
		b.WriteRune(c)
	}
	return b.String()
}

// Map adds a map field with the synthetic entry message protoc would create.
func (m *Msg) Map(name string, num int, key K, val T) *descriptorpb.FieldDescriptorProto {
	entryName := camel(name) + "Entry"
	entry := &descriptorpb.DescriptorProto{
		Name:    proto.String(entryName),
		Options: &descriptorpb.MessageOptions{MapEntry: proto.Bool(true)},
	}
	entry.Field = append(entry.Field,
		&descriptorpb.FieldDescriptorProto{Name: proto.String("key"), Number: proto.Int32(1), Label: descriptorpb.FieldDescriptorProto_LABEL_OPTIONAL.Enum(), Type: key.Enum(), JsonName: proto.String("key")},
		&descriptorpb.FieldDescriptorProto{Name: proto.String("value"), Number: proto.Int32(2), Label: descriptorpb.FieldDescriptorProto_LABEL_OPTIONAL.Enum(), Type: val.Kind.Enum(), TypeName: val.ref(), JsonName: proto.String("value")},
	)
	m.P.NestedType = append(m.P.NestedType, entry)
	return m.field(name, num, T{Kind: Message, Ref: m.full + "." + entryName}, descriptorpb.FieldDescriptorProto_LABEL_REPEATED)
}

func (f *File) String() string { return fmt.Sprintf("%s (%s)", f.P.GetName(), f.P.GetPackage()) }
