package engines

import (
	"bytes"
	"fmt"
	"math"
	"strconv"

	"github.com/cosmos/cosmos-proto/runtime"
	"google.golang.org/protobuf/encoding/protowire"
	"pgregory.net/rapid"

	"verif/kit/model"
)

func init() {
	register(&Engine{
		ID:   "C15",
		Desc: "runtime varint helpers agree with protowire on all inputs",
		Rule: "Sov/Soz: every 2^k-1, 2^k, 2^k+1 (k=0..64) and their negations, a stride over the 32-bit range zero- and sign-extended, boundary-biased rapid draws; thorough: the whole 32-bit range split over the shards (exhaustive for that range). EncodeVarint: canary-filled buffer, drawn value and every offset in [Sov(v), len]. Skip: generated well-formed records of all wire types (nested groups, 1..5-byte tags) with arbitrary suffix, truncations and byte mutations, pure random bytes; oracle protowire.ConsumeField. Non-trivial: value >= 128 / record longer than 2 bytes; distinct by digest of the input.",
		Run:  runC15, Replay: func(ctx *Ctx, c *Case) error { return checkC15(ctx, c) },
		Assumptions: []string{"google.golang.org/protobuf/encoding/protowire is the reference"},
	})
}

func sovCase(v uint64) *Case {
	return &Case{Sub: "size", Args: map[string]string{"v": strconv.FormatUint(v, 10)}}
}

func checkSize(v uint64) error {
	if got, want := runtime.Sov(v), protowire.SizeVarint(v); got != want {
		return fmt.Errorf("Sov(%d)=%d, protowire.SizeVarint=%d", v, got, want)
	}
	if got, want := runtime.Soz(v), protowire.SizeVarint(protowire.EncodeZigZag(int64(v))); got != want {
		return fmt.Errorf("Soz(%d)=%d, SizeVarint(EncodeZigZag)=%d", v, got, want)
	}
	return nil
}

// appendPadded writes v as a varint of exactly width bytes (width >= minimal).
func appendPadded(b []byte, v uint64, width int) []byte {
	for i := 0; i < width-1; i++ {
		b = append(b, byte(v&0x7f)|0x80)
		v >>= 7
	}
	return append(b, byte(v&0x7f))
}

func runC15(ctx *Ctx) {
	// 1. finite boundary enumeration (every shard does it: cheap)
	var bounds []uint64
	for k := 0; k <= 64; k++ {
		var p uint64
		if k < 64 {
			p = 1 << uint(k)
		}
		for _, v := range []uint64{p - 1, p, p + 1} {
			bounds = append(bounds, v, -v, ^v, uint64(int64(int32(v))), uint64(uint32(v)))
		}
	}
	for _, v := range bounds {
		ctx.Eval(1)
		if err := checkSize(v); err != nil {
			ctx.Violation(sovCase(v), err.Error())
			ctx.T.Fail()
			return
		}
		if v >= 128 && ctx.Shard == 0 {
			ctx.Nontrivial("size", strconv.FormatUint(v, 10))
		}
	}
	ctx.Label("boundary values enumerated")
	// 2. 32-bit range: stride (quick) or whole range (thorough), split by shard
	step := uint64(4099) // prime stride: ~1M values per run, different residues per seed
	start := (ctx.Seed*2654435761 + uint64(ctx.Shard)) % step
	if !ctx.Quick() {
		step = 1
		start = 0
	}
	lo := uint64(ctx.Shard) * (1 << 32) / uint64(ctx.NShards)
	hi := uint64(ctx.Shard+1) * (1 << 32) / uint64(ctx.NShards)
	var n int64
	for v := lo + start; v < hi; v += step {
		for _, x := range [2]uint64{v, uint64(int64(int32(uint32(v))))} {
			if runtime.Sov(x) != protowire.SizeVarint(x) || runtime.Soz(x) != protowire.SizeVarint(protowire.EncodeZigZag(int64(x))) {
				ctx.Violation(sovCase(x), checkSize(x).Error())
				ctx.T.Fail()
				return
			}
		}
		n += 2
	}
	ctx.Eval(int(n))
	ctx.Extra("range32_values_checked", n)
	if !ctx.Quick() {
		ctx.SetExhaustive(true)
		ctx.Note("the whole 32-bit range (zero- and sign-extended) was enumerated across the shards; random 64-bit values and Skip/EncodeVarint inputs are sampled")
	}

	// 2b. groups nested around protowire's recursion limit: Skip and ConsumeField agree
	if ctx.Shard == 0 {
		for _, n := range []int{1, 9999, 10000, 10001, 10002, 10003, 30000} {
			b := nestedGroups(n)
			c := &Case{Sub: "skip", Bytes: hexs(b)}
			ctx.Eval(1)
			if err := safely(func() error { return checkC15(ctx, c) }); err != nil {
				c.Bytes = trunc(c.Bytes, 200)
				c.Args = map[string]string{"nested_groups": fmt.Sprint(n)}
				ctx.Violation(c, fmt.Sprintf("%d nested groups: %v", n, err))
				ctx.T.Fail()
			}
		}
	}

	// 2c. many SIBLING groups at shallow depth: more start-group tags in one
	// record than the nesting limit counts levels
	if ctx.Shard == 1%ctx.NShards {
		for _, n := range []int{9999, 10001, 10002, 25000} {
			for _, inner := range []int{0, 1} {
				b := siblingGroups(n, inner)
				c := &Case{Sub: "skip", Bytes: hexs(b)}
				ctx.Eval(1)
				if err := safely(func() error { return checkC15(ctx, c) }); err != nil {
					c.Bytes = trunc(c.Bytes, 200)
					c.Args = map[string]string{"sibling_groups": fmt.Sprint(n), "inner": fmt.Sprint(inner)}
					ctx.Violation(c, fmt.Sprintf("one group holding %d sibling groups (nesting depth %d): %v", n, 2+inner, err))
					ctx.T.Fail()
				} else {
					ctx.Label("skip: thousands of sibling groups at shallow depth")
				}
			}
		}
	}

	// 3. rapid arms
	ctx.CheckRapid("size64", ctx.N(1000000, 8000000)/ctx.NShards+1, func(rt *rapid.T) *Case {
		return sovCase(modelU64(rt))
	}, func(c *Case) error { return checkC15(ctx, c) })

	ctx.CheckRapid("encode", ctx.N(300000, 2000000)/ctx.NShards+1, func(rt *rapid.T) *Case {
		v := modelU64(rt)
		sz := protowire.SizeVarint(v)
		blen := rapid.IntRange(sz, sz+12).Draw(rt, "buflen")
		off := rapid.IntRange(sz, blen).Draw(rt, "offset")
		return &Case{Sub: "encode", Args: map[string]string{"v": strconv.FormatUint(v, 10), "buflen": strconv.Itoa(blen), "offset": strconv.Itoa(off)}}
	}, func(c *Case) error { return checkC15(ctx, c) })

	ctx.CheckRapid("skip", ctx.N(800000, 6000000)/ctx.NShards+1, func(rt *rapid.T) *Case {
		cfg := &model.StreamCfg{Labels: map[string]int{}}
		var b []byte
		switch rapid.IntRange(0, 10).Draw(rt, "class") {
		case 10:
			// a group whose start and end tags are written in independently drawn
			// widths (minimal up to ten bytes), holding a few small records, ending
			// the input or followed by a suffix; nested once in a while
			var grp func(depth int) []byte
			grp = func(depth int) []byte {
				num := uint64(rapid.OneOf(rapid.IntRange(1, 40), rapid.SampledFrom([]int{2047, 2048, 536870911})).Draw(rt, "wgnum"))
				st, en := num<<3|3, num<<3|4
				g := appendPadded(nil, st, rapid.IntRange(protowire.SizeVarint(st), 10).Draw(rt, "startwidth"))
				for i, n := 0, rapid.IntRange(0, 3).Draw(rt, "wkids"); i < n; i++ {
					if depth < 2 && rapid.IntRange(0, 3).Draw(rt, "wkidgroup") == 0 {
						g = append(g, grp(depth+1)...)
						continue
					}
					kt := uint64(rapid.IntRange(1, 20).Draw(rt, "wknum"))<<3 | 0
					g = appendPadded(g, kt, rapid.IntRange(1, 3).Draw(rt, "wkwidth"))
					g = protowire.AppendVarint(g, uint64(rapid.IntRange(0, 300).Draw(rt, "wkval")))
				}
				return appendPadded(g, en, rapid.IntRange(protowire.SizeVarint(en), 10).Draw(rt, "endwidth"))
			}
			b = grp(0)
			if rapid.Bool().Draw(rt, "wsuffix") {
				b = append(b, rapid.SliceOfN(rapid.Byte(), 1, 4).Draw(rt, "suffix")...)
			}
		case 9:
			// every varint of a record written in a drawn width (tags padded up to ten
			// bytes), the value possibly an unterminated run of continuation bytes of
			// any length: shortcuts that trust "enough bytes are left" meet inputs that
			// end inside a varint however long the rest is
			num := uint64(rapid.OneOf(rapid.IntRange(1, 40), rapid.SampledFrom([]int{2047, 2048, 536870911})).Draw(rt, "pnum"))
			typ := uint64(rapid.SampledFrom([]int{0, 0, 0, 2, 2, 1, 5, 3}).Draw(rt, "ptyp"))
			tag := num<<3 | typ
			if rapid.Bool().Draw(rt, "pgroup") {
				b = protowire.AppendTag(b, protowire.Number(rapid.IntRange(1, 20).Draw(rt, "pg")), protowire.StartGroupType)
			}
			b = appendPadded(b, tag, rapid.IntRange(protowire.SizeVarint(tag), 10).Draw(rt, "tagwidth"))
			run := rapid.IntRange(0, 24).Draw(rt, "run")
			fill := byte(rapid.SampledFrom([]int{0xff, 0x80, 0x81}).Draw(rt, "fill"))
			for i := 0; i < run; i++ {
				b = append(b, fill)
			}
			switch rapid.IntRange(0, 3).Draw(rt, "pend") {
			case 0: // ends inside the varint
			case 1:
				b = append(b, 0x01)
			case 2:
				b = append(b, 0x00)
				b = append(b, rapid.SliceOfN(rapid.Byte(), 0, 20).Draw(rt, "ptail")...)
			case 3:
				b = append(b, rapid.SliceOfN(rapid.SampledFrom([]byte{0xff, 0x80, 0x00, 0x01, 0x7f}), 0, 20).Draw(rt, "ptail2")...)
			}
		case 8:
			// a group holding length-delimited records with hostile or boundary lengths
			num := protowire.Number(rapid.IntRange(1, 3000).Draw(rt, "gnum"))
			b = protowire.AppendTag(b, num, protowire.StartGroupType)
			for i, n := 0, rapid.IntRange(1, 3).Draw(rt, "ninner"); i < n; i++ {
				b = protowire.AppendTag(b, protowire.Number(rapid.IntRange(1, 100).Draw(rt, "inum")), protowire.BytesType)
				if rapid.IntRange(0, 2).Draw(rt, "hostile") == 0 {
					b = append(b, rapid.SampledFrom(hostileVarints).Draw(rt, "hlen")...)
					b = append(b, rapid.SliceOfN(rapid.Byte(), 0, 5).Draw(rt, "hbody")...)
				} else {
					n := rapid.SampledFrom([]int{0, 1, 3, 127, 128, 200, 300}).Draw(rt, "blen")
					b = protowire.AppendBytes(b, make([]byte, n))
				}
			}
			if rapid.IntRange(0, 3).Draw(rt, "close") != 0 {
				b = protowire.AppendTag(b, num, protowire.EndGroupType)
			}
		case 6:
			// one length-delimited record (bare or inside a group) whose length
			// prefix is written in 1..10 bytes: every decoder branch for a given
			// prefix width sees lengths with every bit pattern in the low two groups
			n := rapid.OneOf(rapid.IntRange(0, 600), rapid.IntRange(16000, 17000), rapid.IntRange(0, 70000)).Draw(rt, "reclen")
			if rapid.Bool().Draw(rt, "lowbits") {
				n = n | 0x7c | rapid.IntRange(0, 3).Draw(rt, "low2") | 0x80
			}
			min := protowire.SizeVarint(uint64(n))
			width := rapid.IntRange(min, 10).Draw(rt, "prefixwidth")
			rec := protowire.AppendTag(nil, protowire.Number(rapid.IntRange(1, 40).Draw(rt, "lnum")), protowire.BytesType)
			rec = appendPadded(rec, uint64(n), width)
			body := make([]byte, n)
			for i := range body {
				body[i] = byte(i*31 + 7)
			}
			rec = append(rec, body...)
			if rapid.Bool().Draw(rt, "ingroup") {
				g := protowire.Number(rapid.IntRange(1, 40).Draw(rt, "gnum"))
				rec = protowire.AppendTag(append(protowire.AppendTag(nil, g, protowire.StartGroupType), rec...), g, protowire.EndGroupType)
			}
			b = append(rec, rapid.SliceOfN(rapid.Byte(), 0, 4).Draw(rt, "suffix")...)
		case 7:
			// a TREE of groups: sibling sub-groups that themselves hold groups, with
			// equal or different numbers (a skipper's open-group bookkeeping must
			// shrink again when a group closes)
			var tree func(depth int) []byte
			tree = func(depth int) []byte {
				num := protowire.Number(rapid.IntRange(1, 12).Draw(rt, "tnum"))
				g := protowire.AppendTag(nil, num, protowire.StartGroupType)
				for i, n := 0, rapid.IntRange(0, 3).Draw(rt, "kids"); i < n; i++ {
					if depth < 4 && rapid.IntRange(0, 2).Draw(rt, "kidgroup") != 0 {
						g = append(g, tree(depth+1)...)
					} else {
						g = protowire.AppendVarint(protowire.AppendTag(g, protowire.Number(rapid.IntRange(1, 12).Draw(rt, "knum")), protowire.VarintType), uint64(rapid.IntRange(0, 300).Draw(rt, "kval")))
					}
				}
				return protowire.AppendTag(g, num, protowire.EndGroupType)
			}
			b = tree(0)
			b = append(b, rapid.SliceOfN(rapid.Byte(), 0, 4).Draw(rt, "suffix")...)
		case 0:
			b = rapid.SliceOfN(rapid.Byte(), 0, 24).Draw(rt, "random")
		case 1:
			// deeply nested groups with a different field number per level
			depth := rapid.IntRange(1, 70).Draw(rt, "groupdepth")
			nums := make([]protowire.Number, depth)
			for i := range nums {
				nums[i] = protowire.Number(rapid.OneOf(rapid.IntRange(1, 300), rapid.SampledFrom([]int{536870911, 536870912, 2147483647})).Draw(rt, "gnum"))
			}
			for _, n := range nums {
				b = protowire.AppendTag(b, n, protowire.StartGroupType)
				if rapid.IntRange(0, 3).Draw(rt, "inner") == 0 {
					b = protowire.AppendVarint(protowire.AppendTag(b, protowire.Number(rapid.IntRange(1, 50).Draw(rt, "inum")), protowire.VarintType), rapid.Uint64().Draw(rt, "ival"))
				}
			}
			for i := depth - 1; i >= 0; i-- {
				b = protowire.AppendTag(b, nums[i], protowire.EndGroupType)
			}
			if rapid.IntRange(0, 4).Draw(rt, "breakgroup") == 0 && len(b) > 2 {
				b[len(b)-1-rapid.IntRange(0, len(b)/2).Draw(rt, "bpos")] ^= 0x08
			}
			b = append(b, rapid.SliceOfN(rapid.Byte(), 0, 4).Draw(rt, "suffix")...)
		default:
			num := protowire.Number(rapid.OneOf(rapid.IntRange(1, 20), rapid.SampledFrom([]int{15, 16, 2047, 2048, 262143, 262144, 33554431, 33554432, 536870911, 536870912, 1 << 30, 1073754169, 2147483647})).Draw(rt, "num"))
			b = cfg.UnknownRecordNum(rt, nil, num)
			b = append(b, rapid.SliceOfN(rapid.Byte(), 0, 6).Draw(rt, "suffix")...)
			switch rapid.IntRange(0, 5).Draw(rt, "mut") {
			case 0:
				b = b[:rapid.IntRange(0, len(b)).Draw(rt, "trunc")]
			case 1:
				if len(b) > 0 {
					i := rapid.IntRange(0, len(b)-1).Draw(rt, "pos")
					b[i] ^= byte(1 << uint(rapid.IntRange(0, 7).Draw(rt, "bit")))
				}
			case 2:
				if len(b) > 1 {
					i := rapid.IntRange(1, len(b)-1).Draw(rt, "pos")
					hostile := rapid.SampledFrom([][]byte{{0xff, 0xff, 0xff, 0xff, 0x07}, {0xff, 0xff, 0xff, 0xff, 0xff, 0xff, 0xff, 0xff, 0x7f}, {0xff, 0xff, 0xff, 0xff, 0xff, 0xff, 0xff, 0xff, 0xff, 0x01}, {0x80, 0x80, 0x80, 0x80, 0x80, 0x80, 0x80, 0x80, 0x80, 0x80, 0x01}}).Draw(rt, "hostile")
					b = append(append(append([]byte{}, b[:i]...), hostile...), b[i:]...)
				}
			}
		}
		return &Case{Sub: "skip", Bytes: hexs(b)}
	}, func(c *Case) error { return checkC15(ctx, c) })
}

func nestedGroups(n int) []byte {
	var b []byte
	for i := 0; i < n; i++ {
		b = protowire.AppendTag(b, protowire.Number(1+i%5), protowire.StartGroupType)
	}
	for i := n - 1; i >= 0; i-- {
		b = protowire.AppendTag(b, protowire.Number(1+i%5), protowire.EndGroupType)
	}
	return b
}

func siblingGroups(n, inner int) []byte {
	b := protowire.AppendTag(nil, 1, protowire.StartGroupType)
	for i := 0; i < n; i++ {
		b = protowire.AppendTag(b, protowire.Number(2+i%3), protowire.StartGroupType)
		if inner == 1 {
			b = protowire.AppendTag(protowire.AppendTag(b, 9, protowire.StartGroupType), 9, protowire.EndGroupType)
		}
		b = protowire.AppendTag(b, protowire.Number(2+i%3), protowire.EndGroupType)
	}
	return protowire.AppendTag(b, 1, protowire.EndGroupType)
}

func modelU64(rt *rapid.T) uint64 {
	return rapid.OneOf(rapid.Uint64(), rapid.Uint64Range(0, 1<<14), rapid.Custom(func(t *rapid.T) uint64 {
		k := uint(rapid.IntRange(0, 63).Draw(t, "k"))
		d := uint64(rapid.IntRange(-2, 2).Draw(t, "d"))
		v := uint64(1)<<k + d
		if rapid.Bool().Draw(t, "neg") {
			v = -v
		}
		return v
	})).Draw(rt, "v")
}

func checkC15(ctx *Ctx, c *Case) error {
	switch c.Sub {
	case "size":
		v, _ := strconv.ParseUint(c.arg("v"), 10, 64)
		if err := checkSize(v); err != nil {
			return err
		}
		if v >= 128 {
			ctx.Nontrivial("size", c.arg("v"))
		}
	case "encode":
		v, _ := strconv.ParseUint(c.arg("v"), 10, 64)
		blen, off := c.argInt("buflen"), c.argInt("offset")
		buf := bytes.Repeat([]byte{0xA5}, blen)
		want := protowire.AppendVarint(nil, v)
		got := runtime.EncodeVarint(buf, off, v)
		if got != off-len(want) {
			return fmt.Errorf("EncodeVarint(buf[%d], %d, %d) returned %d, want %d", blen, off, v, got, off-len(want))
		}
		if !bytes.Equal(buf[got:off], want) {
			return fmt.Errorf("EncodeVarint wrote %x, minimal varint is %x", buf[got:off], want)
		}
		for i, x := range buf {
			if (i < got || i >= off) && x != 0xA5 {
				return fmt.Errorf("EncodeVarint touched byte %d outside [%d,%d)", i, got, off)
			}
		}
		if v >= 128 {
			ctx.Nontrivial("encode", c.arg("v"), c.arg("offset"), c.arg("buflen"))
		}
	case "skip":
		b := unhex(c.Bytes)
		// the big deterministic inputs are saved truncated: rebuilt from their parameters
		if n := c.argInt("nested_groups"); n > 0 && len(b) < n {
			b = nestedGroups(n)
		}
		if n := c.argInt("sibling_groups"); n > 0 && len(b) < n {
			b = siblingGroups(n, c.argInt("inner"))
		}
		orig := append([]byte{}, b...)
		n, err := runtime.Skip(b)
		if !bytes.Equal(b, orig) {
			return fmt.Errorf("Skip modified its input")
		}
		if err == nil && n <= 0 {
			return fmt.Errorf("Skip returned (%d, nil): no progress", n)
		}
		if err != nil && n != 0 {
			return fmt.Errorf("Skip returned (%d, %v): non-zero length with an error", n, err)
		}
		_, _, m := protowire.ConsumeField(b)
		if m > 0 {
			if err != nil || n != m {
				return fmt.Errorf("first record is well-formed with length %d, Skip returned (%d, %v)", m, n, err)
			}
			ctx.Label("skip: well-formed first record")
			if m > 2 {
				ctx.Nontrivial("skip", c.Bytes)
			}
		} else {
			ctx.Label("skip: malformed first record")
			if len(b) > 2 {
				ctx.Nontrivial("skip", c.Bytes)
			}
		}
	default:
		return fmt.Errorf("HARNESS: unknown sub %q", c.Sub)
	}
	_ = math.MaxInt64
	return nil
}
