// Package engines holds one engine per property. Every engine is split into a
// generator (all randomness through rapid draws) and a pure Check(Case) that
// the replay path calls directly, bypassing rapid.
package engines

import (
	"encoding/binary"
	"encoding/json"
	"flag"
	"fmt"
	"hash/fnv"
	"os"
	"path/filepath"
	"runtime/debug"
	"sort"
	"strconv"
	"strings"
	"sync"
	"testing"
	"time"

	"pgregory.net/rapid"
)

// Case is the serialisable description of one generated case. It is the unit
// of replay: Check(case) depends on nothing else.
type Case struct {
	Prop   string            `json:"property"`
	Sub    string            `json:"sub,omitempty"`  // which arm / law of the engine
	Type   string            `json:"type,omitempty"` // message full name
	Bytes  string            `json:"bytes_hex,omitempty"`
	Bytes2 string            `json:"bytes2_hex,omitempty"`
	Args   map[string]string `json:"args,omitempty"`
	Ops    []Op              `json:"ops,omitempty"`
	Fail   string            `json:"failure,omitempty"`
}

// Op is one step of an operation history (C08, C11).
type Op struct {
	Op   string `json:"op"`
	H    int    `json:"h,omitempty"`     // handle the op applies to (0 = root message)
	F    int    `json:"f,omitempty"`     // field number / oneof index
	I    int    `json:"i,omitempty"`     // list index / truncate length
	K    string `json:"k,omitempty"`     // map key (hex of the scalar wire payload)
	V    string `json:"v,omitempty"`     // scalar value (hex of wire payload) or message bytes
	Note string `json:"note,omitempty"`
}

func (c *Case) arg(k string) string { return c.Args[k] }
func (c *Case) argInt(k string) int {
	n, _ := strconv.Atoi(c.Args[k])
	return n
}

type Engine struct {
	ID   string
	Desc string
	Rule string // how cases are generated and what makes one non-trivial
	// Run explores; it reports violations through ctx.
	Run func(ctx *Ctx)
	// Replay re-executes one saved case; nil error = property held.
	Replay func(ctx *Ctx, c *Case) error
	Assumptions []string
}

var registry = map[string]*Engine{}

func register(e *Engine) { registry[e.ID] = e }

// Ctx carries the run configuration and collects statistics.
type Ctx struct {
	T       *testing.T
	Prop    string
	Tier    string
	Seed    uint64
	Shard   int
	NShards int
	OutDir  string
	Replays string
	Smoke   bool // reduced budgets (C12 smoke pass over fresh types)
	OnlyFresh bool

	mu          sync.Mutex
	evaluations int64
	digests     map[uint64]struct{}
	labels      map[string]int
	excluded    map[string]int
	samples     []json.RawMessage
	sampleSeen  int
	largest     json.RawMessage
	largestSize int
	violations  []string
	known       []string
	notes       []string
	exhaustive  bool
	extra       map[string]interface{}
	avoid       map[string]bool
	start       time.Time
}

func (c *Ctx) Quick() bool { return c.Tier != "thorough" }

// N picks a budget by tier (smoke divides it further).
func (c *Ctx) N(quick, thorough int) int {
	n := quick
	if !c.Quick() {
		n = thorough
	}
	if c.Smoke {
		n = n / 8
		if n < 20 {
			n = 20
		}
	}
	return n
}

func (c *Ctx) Eval(n int) {
	c.mu.Lock()
	c.evaluations += int64(n)
	c.mu.Unlock()
}

func digest(parts ...string) uint64 {
	h := fnv.New64a()
	for _, p := range parts {
		h.Write([]byte(p))
		h.Write([]byte{0})
	}
	return h.Sum64()
}

// Nontrivial counts one evaluated case as non-trivial; distinctness is by the
// digest of the given parts.
func (c *Ctx) Nontrivial(parts ...string) {
	d := digest(parts...)
	c.mu.Lock()
	c.digests[d] = struct{}{}
	c.mu.Unlock()
}

func (c *Ctx) Label(s string) {
	c.mu.Lock()
	c.labels[s]++
	c.mu.Unlock()
}

func (c *Ctx) LabelN(s string, n int) {
	c.mu.Lock()
	c.labels[s] += n
	c.mu.Unlock()
}

func (c *Ctx) MergeLabels(m map[string]int) {
	c.mu.Lock()
	for k, v := range m {
		c.labels[k] += v
	}
	c.mu.Unlock()
}

func (c *Ctx) MergeExcluded(m map[string]int) {
	c.mu.Lock()
	for k, v := range m {
		c.excluded[k] += v
	}
	c.mu.Unlock()
}

func (c *Ctx) Note(format string, a ...interface{}) {
	c.mu.Lock()
	if len(c.notes) < 40 {
		c.notes = append(c.notes, trunc(fmt.Sprintf(format, a...), 600))
	}
	c.mu.Unlock()
}

func (c *Ctx) Extra(k string, v interface{}) {
	c.mu.Lock()
	c.extra[k] = v
	c.mu.Unlock()
}

func (c *Ctx) SetExhaustive(b bool) { c.exhaustive = b }

// Sample keeps the first few cases, a thinning selection of later ones, and
// the largest one, written out in the evidence file.
func (c *Ctx) Sample(cs *Case) {
	c.mu.Lock()
	defer c.mu.Unlock()
	c.sampleSeen++
	n := c.sampleSeen
	keep := n <= 3 || (n&(n-1)) == 0 && len(c.samples) < 12
	js, _ := json.Marshal(cs)
	if len(js) > 6000 {
		js, _ = json.Marshal(map[string]interface{}{"property": cs.Prop, "type": cs.Type, "sub": cs.Sub, "truncated_bytes_hex": trunc(cs.Bytes, 2000), "args": cs.Args, "n_ops": len(cs.Ops)})
	}
	if keep {
		c.samples = append(c.samples, js)
	}
	if len(js) > c.largestSize && len(js) <= 6000 {
		c.largestSize = len(js)
		c.largest = js
	}
}

func trunc(s string, n int) string {
	if len(s) > n {
		return s[:n]
	}
	return s
}

// Avoid reports whether generators must steer away from a known-finding class.
func (c *Ctx) Avoid(class string) bool { return c.avoid[class] }
func (c *Ctx) AvoidSet() map[string]bool { return c.avoid }

// Violation records a property violation with its replay case.
func (c *Ctx) Violation(cs *Case, msg string) {
	cs.Prop = c.Prop
	cs.Fail = msg
	js, _ := json.MarshalIndent(cs, "", " ")
	name := fmt.Sprintf("%s-seed%d-%016x.json", strings.ToLower(cs.Sub+"-"+shortType(cs.Type)), c.Seed, digest(string(js)))
	name = strings.Trim(strings.ReplaceAll(name, "/", "_"), "-")
	dir := filepath.Join(c.Replays, c.Prop)
	_ = os.MkdirAll(dir, 0o755)
	path := filepath.Join(dir, name)
	_ = os.WriteFile(path, js, 0o644)
	c.mu.Lock()
	c.violations = append(c.violations, path)
	c.mu.Unlock()
	fmt.Printf("VIOLATION property=%s replay=%s\n", c.Prop, path)
	fmt.Printf("  detail: %s\n", trunc(msg, 1500))
}

func shortType(s string) string {
	if i := strings.LastIndex(s, "."); i >= 0 && len(s) > 40 {
		return s[i+1:]
	}
	return s
}

// KnownFinding reports a listed finding that is still present.
func (c *Ctx) KnownFinding(id, what string) {
	c.mu.Lock()
	c.known = append(c.known, id)
	c.mu.Unlock()
	fmt.Printf("KNOWN-FINDING: property=%s %s %s\n", c.Prop, id, what)
}

// CheckRapid runs prop under rapid with the given number of checks. gen draws
// a case, check decides it. The smallest failing case seen (rapid re-runs the
// minimal one last) is saved as the replay. Returns false on violation.
func (c *Ctx) CheckRapid(name string, checks int, gen func(t *rapid.T) *Case, check func(cs *Case) error) bool {
	ok := true
	c.T.Run(name, func(t *testing.T) {
		var last *Case
		var lastErr error
		defer func() {
			if t.Failed() {
				ok = false
				if last != nil {
					c.Violation(last, lastErr.Error())
				} else {
					// failure inside the generator: harness problem, not a violation
					fmt.Printf("HARNESS-ERROR property=%s generator failed in %s\n", c.Prop, name)
				}
			}
		}()
		_ = flag.Set("rapid.checks", strconv.Itoa(checks))
		rapid.Check(t, func(rt *rapid.T) {
			cs := gen(rt)
			if cs == nil {
				return
			}
			cs.Prop = c.Prop
			c.Eval(1)
			err := safely(func() error { return check(cs) })
			if err != nil {
				if strings.HasPrefix(err.Error(), "HARNESS") {
					fmt.Printf("HARNESS-ERROR %s: %v\n", name, err)
					rt.Fatalf("%v", err)
				}
				last, lastErr = cs, err
				rt.Fatalf("%v", err)
			}
			c.Sample(cs)
		})
	})
	return ok
}

// safely converts a panic in f into an error (a panic in code under test is a
// violation of every property that says "never panics"; engines that expect
// panics use their own recover).
func safely(f func() error) (err error) {
	defer func() {
		if r := recover(); r != nil {
			err = fmt.Errorf("panic: %v", r)
			if os.Getenv("VERIF_TRACE") != "" {
				fmt.Printf("TRACE %v\n%s\n", r, debug.Stack())
			}
		}
	}()
	return f()
}

// result file ---------------------------------------------------------------

type result struct {
	Property    string                 `json:"property_id"`
	Tier        string                 `json:"tier"`
	Seed        uint64                 `json:"seed"`
	Shard       int                    `json:"shard"`
	NShards     int                    `json:"nshards"`
	Evaluations int64                  `json:"evaluations"`
	Distinct    int                    `json:"distinct_nontrivial"`
	Rule        string                 `json:"rule"`
	Samples     []json.RawMessage      `json:"samples"`
	Labels      map[string]int         `json:"labels"`
	Excluded    map[string]int         `json:"excluded_known_or_ambiguous"`
	Exhaustive  bool                   `json:"exhaustive"`
	Violations  []string               `json:"violations"`
	Known       []string               `json:"known_findings_present"`
	Notes       []string               `json:"notes"`
	Assumptions []string               `json:"assumptions"`
	Extra       map[string]interface{} `json:"extra"`
	WallS       float64                `json:"wall_s"`
	Failed      bool                   `json:"test_failed"`
}

func (c *Ctx) write(e *Engine) {
	if c.OutDir == "" {
		return
	}
	_ = os.MkdirAll(c.OutDir, 0o755)
	r := result{
		Property: c.Prop, Tier: c.Tier, Seed: c.Seed, Shard: c.Shard, NShards: c.NShards,
		Evaluations: c.evaluations, Distinct: len(c.digests), Rule: e.Rule, Samples: c.samples,
		Labels: c.labels, Excluded: c.excluded, Exhaustive: c.exhaustive, Violations: c.violations,
		Known: c.known, Notes: c.notes, Assumptions: e.Assumptions, Extra: c.extra,
		WallS: time.Since(c.start).Seconds(), Failed: c.T.Failed(),
	}
	if c.largest != nil {
		r.Samples = append(r.Samples, c.largest)
	}
	if r.Samples == nil {
		r.Samples = []json.RawMessage{}
	}
	js, _ := json.MarshalIndent(r, "", " ")
	base := filepath.Join(c.OutDir, fmt.Sprintf("%s.shard%d", c.Prop, c.Shard))
	_ = os.WriteFile(base+".json", js, 0o644)
	// digests for exact merging of distinct counts across shards
	ds := make([]uint64, 0, len(c.digests))
	for d := range c.digests {
		ds = append(ds, d)
	}
	sort.Slice(ds, func(i, j int) bool { return ds[i] < ds[j] })
	buf := make([]byte, 8*len(ds))
	for i, d := range ds {
		binary.LittleEndian.PutUint64(buf[8*i:], d)
	}
	_ = os.WriteFile(base+".digests", buf, 0o644)
}

func envStr(k string) string { return os.Getenv(k) }

func envInt(k string, def int) int {
	if v := os.Getenv(k); v != "" {
		if n, err := strconv.Atoi(v); err == nil {
			return n
		}
	}
	return def
}

// Main is the single test entry point: it dispatches on VERIF_PROP.
func Main(t *testing.T) {
	prop := os.Getenv("VERIF_PROP")
	if prop == "" {
		t.Skip("VERIF_PROP not set")
	}
	e := registry[prop]
	if e == nil {
		t.Fatalf("HARNESS-ERROR unknown property %q", prop)
	}
	seed, _ := strconv.ParseUint(os.Getenv("VERIF_SEED"), 10, 64)
	ctx := newCtx(t, prop)
	ctx.Tier = os.Getenv("VERIF_TIER")
	if ctx.Tier == "" {
		ctx.Tier = "quick"
	}
	ctx.Seed = seed
	ctx.Shard = envInt("VERIF_SHARD", 0)
	ctx.NShards = envInt("VERIF_NSHARDS", 1)
	ctx.OutDir = os.Getenv("VERIF_OUT")
	ctx.Replays = os.Getenv("VERIF_REPLAYS")
	if ctx.Replays == "" {
		ctx.Replays = "/verif/replays"
	}
	ctx.Smoke = os.Getenv("VERIF_SMOKE") != ""
	ctx.OnlyFresh = os.Getenv("VERIF_ONLY_FRESH") != ""
	defer ctx.write(e)

	if rp := os.Getenv("VERIF_REPLAY"); rp != "" {
		js, err := os.ReadFile(rp)
		if err != nil {
			t.Fatalf("HARNESS-ERROR cannot read replay: %v", err)
		}
		var cs Case
		if err := json.Unmarshal(js, &cs); err != nil {
			t.Fatalf("HARNESS-ERROR bad replay file: %v", err)
		}
		if e.Replay == nil {
			t.Fatalf("HARNESS-ERROR engine %s has no replay", prop)
		}
		ctx.Eval(1)
		if err := safely(func() error { return e.Replay(ctx, &cs) }); err != nil {
			fmt.Printf("VIOLATION property=%s replay=%s\n  detail: %s\n", prop, rp, trunc(err.Error(), 1500))
			ctx.mu.Lock()
			ctx.violations = append(ctx.violations, rp)
			ctx.mu.Unlock()
			t.Fail()
		} else {
			fmt.Printf("REPLAY-OK property=%s %s\n", prop, rp)
		}
		return
	}
	loadKnown(ctx)
	runRegress(ctx, e)
	e.Run(ctx)
}

// runRegress replays every saved case under regress/<prop>/ (shrunk failures
// of defects found earlier, seeded-mutant witnesses) before the search starts.
func runRegress(ctx *Ctx, e *Engine) {
	if ctx.Shard != 0 || e.Replay == nil {
		return
	}
	dir := os.Getenv("VERIF_REGRESS")
	if dir == "" {
		dir = "/verif/regress"
	}
	files, _ := filepath.Glob(filepath.Join(dir, ctx.Prop, "*.json"))
	sort.Strings(files)
	for _, f := range files {
		js, err := os.ReadFile(f)
		if err != nil {
			continue
		}
		var cs Case
		if err := json.Unmarshal(js, &cs); err != nil {
			fmt.Printf("HARNESS-ERROR bad regress file %s: %v\n", f, err)
			continue
		}
		ctx.Eval(1)
		ctx.Label("regression cases replayed")
		if err := safely(func() error { return e.Replay(ctx, &cs) }); err != nil {
			if strings.HasPrefix(err.Error(), "HARNESS") {
				fmt.Printf("HARNESS-ERROR regress %s: %v\n", f, err)
				continue
			}
			fmt.Printf("VIOLATION property=%s replay=%s\n  detail: %s\n", ctx.Prop, f, trunc(err.Error(), 1500))
			ctx.mu.Lock()
			ctx.violations = append(ctx.violations, f)
			ctx.mu.Unlock()
			ctx.T.Fail()
		}
	}
}

func newCtx(t *testing.T, prop string) *Ctx {
	return &Ctx{T: t, Prop: prop, digests: map[uint64]struct{}{}, labels: map[string]int{}, excluded: map[string]int{},
		extra: map[string]interface{}{}, avoid: map[string]bool{}, start: time.Now()}
}
