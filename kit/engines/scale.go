package engines

import (
	"fmt"
	"strings"

	"verif/kit/model"
)

// runScale feeds the deterministic LARGE values of model.ScaleStreams to an
// engine's check function: quick tier for one type in five of the shard
// (rotating with the seed), thorough tier for every type.
func runScale(ctx *Ctx, sub string, args map[string]string, check func(c *Case) error) {
	for i, t := range ctx.types() {
		if ctx.Quick() && (i+int(ctx.Seed))%5 != 0 {
			continue
		}
		for _, ss := range model.ScaleStreams(t.Desc) {
			c := &Case{Sub: sub, Type: string(t.Name), Bytes: hexs(ss.Bytes), Args: map[string]string{"scale": ss.Name}}
			for k, v := range args {
				c.Args[k] = v
			}
			ctx.Eval(1)
			if err := safely(func() error { return check(c) }); err != nil {
				if strings.HasPrefix(err.Error(), "HARNESS") {
					fmt.Printf("HARNESS-ERROR %v\n", err)
				} else {
					c.Bytes = trunc(c.Bytes, 4000) // the stream is rebuilt from (type, scale) on replay
					ctx.Violation(c, fmt.Sprintf("large value (%s): %v", ss.Name, err))
				}
				ctx.T.Fail()
				break
			}
			ctx.Label("scale: " + strings.Fields(ss.Name)[0] + " ...")
		}
	}
}

// scaleBytes rebuilds the stream of a saved scale case.
func scaleBytes(c *Case) bool {
	name := c.arg("scale")
	if name == "" {
		return false
	}
	t := model.TypeByName(c.Type)
	if t == nil {
		return false
	}
	for _, ss := range model.ScaleStreams(t.Desc) {
		if ss.Name == name {
			c.Bytes = hexs(ss.Bytes)
			return true
		}
	}
	return false
}
