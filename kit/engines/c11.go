package engines

import (
	"encoding/json"
	"fmt"
	"os"
	"path/filepath"
	"runtime"
	"sort"
	"strings"
	"sync"

	"google.golang.org/protobuf/encoding/protojson"
	"google.golang.org/protobuf/encoding/protowire"
	"google.golang.org/protobuf/proto"
	"google.golang.org/protobuf/reflect/protoreflect"
	"pgregory.net/rapid"

	"verif/kit/model"
)

func init() {
	register(&Engine{
		ID:   "C11",
		Desc: "concurrent readers of a shared message are race-free",
		Rule: "test binary built with -race. Case = (generated type, value V with nested messages / maps / lists / well-known types, G in 2..16 goroutines, per-goroutine sequence of 3..12 read-only operations drawn from {Size, Marshal, deterministic Marshal, Has+Get on every field with deep reads of lists/maps/messages, Range with deep reads, WhichOneof, Equal against a private clone, Clone, Merge-from, protojson.Marshal, String, deep canonical walk}, positions of injected runtime.Gosched, GOMAXPROCS in {2,4,16}). Results are first computed sequentially; then all goroutines start behind a barrier on the shared message. Oracle: the race detector stays silent (GORACE=halt_on_error=1: a report kills the process, the case announced just before is the replay) and every goroutine's results equal the sequential ones. Non-trivial: >= 2 goroutines, V non-empty; distinct by digest of (type, V, op lists).",
		Run:  runC11, Replay: replayC11,
		Assumptions: []string{"schedules are sampled; the happens-before race detector reports any pair of unsynchronised conflicting accesses that is executed, independent of timing", "rapid cannot shrink schedule-dependent failures: the announced case is the replay"},
	})
}

var c11OpNames = []string{"size", "marshal", "detmarshal", "hasget", "range", "which", "equal", "clone", "mergefrom", "json", "string", "canon", "sharedviews", "sharedviews"}

// Views of the shared message (List, Map and nested Message values) obtained
// ONCE, before the goroutines start, and read by all of them: a view is a
// reference into the message, and reading through it is a read of the message.
type c11View struct {
	fd protoreflect.FieldDescriptor
	v  protoreflect.Value
}

var (
	c11SharedMsg   proto.Message
	c11SharedViews []c11View
)

func collectViews(m protoreflect.Message, depth int, out *[]c11View) {
	if depth > 2 || !m.IsValid() {
		return
	}
	m.Range(func(fd protoreflect.FieldDescriptor, v protoreflect.Value) bool {
		switch {
		case fd.IsList():
			*out = append(*out, c11View{fd, v})
			if fd.Message() != nil {
				for i := 0; i < v.List().Len() && i < 3; i++ {
					collectViews(v.List().Get(i).Message(), depth+1, out)
				}
			}
		case fd.IsMap():
			*out = append(*out, c11View{fd, v})
		case fd.Message() != nil:
			*out = append(*out, c11View{fd, v})
			collectViews(v.Message(), depth+1, out)
		}
		return true
	})
}

func readViews(views []c11View) string {
	var sb strings.Builder
	for _, vw := range views {
		switch {
		case vw.fd.IsList():
			l := vw.v.List()
			fmt.Fprintf(&sb, "L%d[", l.Len())
			for i := 0; i < l.Len(); i++ {
				sb.WriteString(elemStr(vw.fd, l.Get(i), model.Same))
				sb.WriteString(",")
			}
			sb.WriteString("]")
		case vw.fd.IsMap():
			mp := vw.v.Map()
			var parts []string
			mp.Range(func(k protoreflect.MapKey, v protoreflect.Value) bool {
				parts = append(parts, model.CanonValue(vw.fd.MapKey(), k.Value())+"="+elemStr(vw.fd.MapValue(), v, model.Same)+fmt.Sprint(mp.Has(k)))
				return true
			})
			sort.Strings(parts)
			fmt.Fprintf(&sb, "M%d{%s}", mp.Len(), strings.Join(parts, ","))
		default:
			sb.WriteString(model.Canon(vw.v.Message(), model.Same))
		}
	}
	return fmt.Sprintf("%x", digest(sb.String()))
}

func c11Op(name string, p, priv proto.Message) string {
	m := p.ProtoReflect()
	switch name {
	case "size":
		return fmt.Sprint(proto.Size(p))
	case "marshal":
		b, err := proto.Marshal(p)
		return fmt.Sprint(len(b), err)
	case "detmarshal":
		b, err := det.Marshal(p)
		return fmt.Sprintf("%x %v", digest(string(b)), err)
	case "hasget":
		var sb strings.Builder
		fds := m.Descriptor().Fields()
		for i := 0; i < fds.Len(); i++ {
			fd := fds.Get(i)
			fmt.Fprintf(&sb, "%v;", m.Has(fd))
			v := m.Get(fd)
			readValue(fd, v)
			if fd.Message() != nil && !fd.IsList() && !fd.IsMap() {
				sb.WriteString(model.Canon(v.Message(), model.Same))
			}
		}
		return fmt.Sprintf("%x", digest(sb.String()))
	case "range":
		n := 0
		m.Range(func(fd protoreflect.FieldDescriptor, v protoreflect.Value) bool {
			readValue(fd, v)
			n++
			return true
		})
		return fmt.Sprint(n)
	case "which":
		var sb strings.Builder
		ods := m.Descriptor().Oneofs()
		for i := 0; i < ods.Len(); i++ {
			if w := m.WhichOneof(ods.Get(i)); w != nil {
				fmt.Fprintf(&sb, "%d;", w.Number())
			} else {
				sb.WriteString("-;")
			}
		}
		return sb.String()
	case "equal":
		return fmt.Sprint(proto.Equal(p, priv), proto.Equal(priv, p))
	case "clone":
		return fmt.Sprintf("%x", digest(canonI(proto.Clone(p))))
	case "mergefrom":
		dst := m.Type().New().Interface()
		proto.Merge(dst, p)
		return fmt.Sprintf("%x", digest(canonI(dst)))
	case "json":
		b, err := protojson.Marshal(p)
		return fmt.Sprint(len(compactJSON(b)), err != nil)
	case "string":
		if s, ok := p.(fmt.Stringer); ok {
			return fmt.Sprint(len(strings.Fields(s.String())))
		}
		return ""
	case "canon":
		return fmt.Sprintf("%x", digest(canonP(p)))
	case "sharedviews":
		if p == c11SharedMsg {
			return readViews(c11SharedViews)
		}
		var vs []c11View
		collectViews(m, 0, &vs)
		return readViews(vs)
	}
	return "?"
}

func runC11(ctx *Ctx) {
	types := ctx.types()
	if len(types) == 0 {
		return
	}
	n := ctx.N(1000, 16000)/ctx.NShards + 1
	ctx.CheckRapid("concurrent-readers", n, func(rt *rapid.T) *Case {
		t := types[rapid.IntRange(0, len(types)-1).Draw(rt, "type")]
		cfg := ctx.streamCfg(true, true)
		cfg.MapBurst = 4
		b := cfg.GenStream(rt, t.Desc, 0)
		if _, err := decodeD(t, b); err != nil {
			return nil
		}
		c := &Case{Type: string(t.Name), Bytes: hexs(b), Args: map[string]string{}}
		g := rapid.IntRange(2, 16).Draw(rt, "goroutines")
		c.Args["procs"] = fmt.Sprint(rapid.SampledFrom([]int{2, 4, 16}).Draw(rt, "procs"))
		for gi := 0; gi < g; gi++ {
			k := rapid.IntRange(3, 12).Draw(rt, "nops")
			for j := 0; j < k; j++ {
				op := Op{H: gi, Op: rapid.SampledFrom(c11OpNames).Draw(rt, "op")}
				if rapid.IntRange(0, 3).Draw(rt, "yield") == 0 {
					op.Note = "yield"
				}
				c.Ops = append(c.Ops, op)
			}
		}
		return c
	}, func(c *Case) error { return checkC11(ctx, c, 1) })
	runC11Any(ctx, types, n/16+1)
	runC11NilBytes(ctx, types)
	runC11Deep(ctx)
	runC11Big(ctx)
}

// runC11NilBytes: an EMPTY bytes value in every position where it is a value of
// its own (active oneof member, list element, map value), held as a nil slice -
// what `&T_Member{}` or `[][]byte{nil}` written by hand gives - and read by eight
// goroutines at once: a reader that "normalises" nil to empty writes.
func runC11NilBytes(ctx *Ctx, types []*model.Type) {
	n := 0
	for _, t := range types {
		fds := t.Desc.Fields()
		var b []byte
		for i := 0; i < fds.Len(); i++ {
			fd := fds.Get(i)
			switch {
			case fd.IsMap() && fd.MapValue().Kind() == protoreflect.BytesKind && fd.MapKey().Kind() == protoreflect.StringKind:
				entry := protowire.AppendString(protowire.AppendTag(nil, 1, protowire.BytesType), "k")
				entry = protowire.AppendBytes(protowire.AppendTag(entry, 2, protowire.BytesType), nil)
				b = protowire.AppendBytes(protowire.AppendTag(b, fd.Number(), protowire.BytesType), entry)
			case fd.Kind() == protoreflect.BytesKind && !fd.IsMap() && (fd.IsList() || fd.ContainingOneof() != nil):
				b = protowire.AppendBytes(protowire.AppendTag(b, fd.Number(), protowire.BytesType), nil)
			}
		}
		if b == nil {
			continue
		}
		if n++; ctx.Quick() && n > 12 {
			break
		}
		c := &Case{Sub: "nilbytes", Type: string(t.Name), Bytes: hexs(b), Args: map[string]string{"procs": "16"}}
		for g := 0; g < 8; g++ {
			for _, op := range [][]string{{"hasget", "equal", "marshal"}, {"equal", "range", "hasget"}, {"size", "hasget", "json"}, {"range", "clone", "equal"}}[g%4] {
				c.Ops = append(c.Ops, Op{H: g, Op: op})
			}
		}
		ctx.Eval(1)
		if err := safely(func() error { return checkC11(ctx, c, 1) }); err != nil {
			if strings.HasPrefix(err.Error(), "HARNESS") {
				fmt.Printf("HARNESS-ERROR %v\n", err)
			} else {
				ctx.Violation(c, err.Error())
			}
			ctx.T.Fail()
		} else {
			ctx.Label("nilbytes arm: empty bytes values held as nil slices")
		}
	}
}

// runC11Any: the shared message holds a google.protobuf.Any that packs a
// GENERATED type. Rendering it (protojson, String) expands the Any, i.e. runs
// the payload type's generated DECODER inside a read-only operation: the only
// way concurrent readers reach decoder-side state.
func runC11Any(ctx *Ctx, types []*model.Type, n int) {
	type site struct {
		t  *model.Type
		fd protoreflect.FieldDescriptor
	}
	var sites []site
	for _, t := range types {
		fds := t.Desc.Fields()
		for i := 0; i < fds.Len(); i++ {
			fd := fds.Get(i)
			md := fd.Message()
			if fd.IsMap() {
				md = fd.MapValue().Message()
			}
			if md != nil && md.FullName() == "google.protobuf.Any" {
				sites = append(sites, site{t, fd})
			}
		}
	}
	if len(sites) == 0 {
		return
	}
	all := model.TypesNoBulk()
	ctx.CheckRapid("any-readers", n, func(rt *rapid.T) *Case {
		st := sites[rapid.IntRange(0, len(sites)-1).Draw(rt, "site")]
		pt := all[rapid.IntRange(0, len(all)-1).Draw(rt, "payloadtype")]
		cfg := ctx.streamCfg(false, true)
		cfg.ListBurst = 3
		payload := cfg.GenStream(rt, pt.Desc, 0)
		if _, err := decodeD(pt, payload); err != nil {
			return nil
		}
		anyb := protowire.AppendString(protowire.AppendTag(nil, 1, protowire.BytesType), "type.googleapis.com/"+string(pt.Name))
		anyb = protowire.AppendBytes(protowire.AppendTag(anyb, 2, protowire.BytesType), payload)
		var b []byte
		reps := 1
		if st.fd.IsList() {
			reps = 2
		}
		for r := 0; r < reps; r++ {
			rec := anyb
			if st.fd.IsMap() {
				rec = protowire.AppendBytes(protowire.AppendTag(nil, 2, protowire.BytesType), anyb)
			}
			b = protowire.AppendBytes(protowire.AppendTag(b, st.fd.Number(), protowire.BytesType), rec)
		}
		if _, err := decodeD(st.t, b); err != nil {
			return nil
		}
		c := &Case{Sub: "anyreaders", Type: string(st.t.Name), Bytes: hexs(b), Args: map[string]string{"payload": string(pt.Name)}}
		g := rapid.IntRange(2, 12).Draw(rt, "goroutines")
		c.Args["procs"] = fmt.Sprint(rapid.SampledFrom([]int{2, 4, 16}).Draw(rt, "procs"))
		for gi := 0; gi < g; gi++ {
			for j, k := 0, rapid.IntRange(2, 6).Draw(rt, "nops"); j < k; j++ {
				op := Op{H: gi, Op: rapid.SampledFrom([]string{"json", "string", "json", "string", "marshal", "canon", "equal"}).Draw(rt, "op")}
				if rapid.IntRange(0, 3).Draw(rt, "yield") == 0 {
					op.Note = "yield"
				}
				c.Ops = append(c.Ops, op)
			}
		}
		return c
	}, func(c *Case) error { return checkC11(ctx, c, 1) })
}

// runC11Big: shared messages far larger than the random ones (a 70 000-byte
// string, a packed run of 70 000 elements, 1100 map entries, a 70 KB unknown
// set, ...), built by the decoder and never sized before the goroutines start:
// whatever a codec memoises about a big message on first use is written here.
func runC11Big(ctx *Ctx) {
	n := 0
	for i, t := range ctx.types() {
		if (i+int(ctx.Seed))%3 != 0 {
			continue
		}
		if ctx.Quick() && n >= 2 {
			break
		}
		n++
		for _, ss := range model.ScaleStreams(t.Desc) {
			if len(ss.Bytes) > 1<<20 {
				continue
			}
			c := &Case{Sub: "big", Type: string(t.Name), Bytes: hexs(ss.Bytes), Args: map[string]string{"procs": "16", "scale": ss.Name}}
			for g := 0; g < 8; g++ {
				for _, op := range []string{"size", "marshal", "detmarshal"}[g%3:] {
					c.Ops = append(c.Ops, Op{H: g, Op: op})
				}
			}
			ctx.Eval(1)
			if err := safely(func() error { return checkC11(ctx, c, 1) }); err != nil {
				if strings.HasPrefix(err.Error(), "HARNESS") {
					fmt.Printf("HARNESS-ERROR %v\n", err)
				} else {
					c.Bytes = trunc(c.Bytes, 4000)
					ctx.Violation(c, err.Error())
				}
				ctx.T.Fail()
			} else {
				ctx.Label("big arm: " + strings.Fields(ss.Name)[0] + " ...")
			}
		}
	}
}

// runC11Deep: one shared message nested some thousand levels deep (every
// recursive type), read by many goroutines at once with the codec operations.
// Anything the codec keeps per process rather than per call (depth counters,
// scratch buffers) adds up across goroutines only here: goroutines x levels is
// far beyond any per-call limit while each call stays far below it.
func runC11Deep(ctx *Ctx) {
	// marshalling a chain is quadratic in its depth (every level sizes its
	// child again), so depth is kept moderate and the goroutine count high
	grid := [][2]int{{600, 48}}
	maxTypes := 4
	if !ctx.Quick() {
		grid = [][2]int{{600, 48}, {1500, 32}, {3000, 8}}
		maxTypes = 1 << 30
	}
	i, used := 0, 0
	for _, t := range model.TypesNoBulk() {
		if ctx.OnlyFresh && !t.Fresh {
			continue
		}
		path := cyclePath(t.Desc)
		if path == nil {
			continue
		}
		i++
		if (i+int(ctx.Seed))%ctx.NShards != ctx.Shard {
			continue
		}
		if used++; used > maxTypes {
			break
		}
		for _, lg := range grid {
			c := &Case{Sub: "deep", Type: string(t.Name), Bytes: hexs(nestedPayload(path, lg[0])), Args: map[string]string{"procs": "16", "levels": fmt.Sprint(lg[0])}}
			for g := 0; g < lg[1]; g++ {
				for _, op := range []string{"marshal", "detmarshal"} {
					c.Ops = append(c.Ops, Op{H: g, Op: op})
				}
			}
			ctx.Eval(1)
			if err := safely(func() error { return checkC11(ctx, c, 1) }); err != nil {
				if strings.HasPrefix(err.Error(), "HARNESS") {
					fmt.Printf("HARNESS-ERROR %v\n", err)
				} else {
					ctx.Violation(c, err.Error())
				}
				ctx.T.Fail()
			} else {
				ctx.Label(fmt.Sprintf("deep arm: %d levels x %d goroutines", lg[0], lg[1]))
			}
		}
	}
}

// announce records the case about to run so that a race report (which kills
// the process) still leaves a replay.
func announce(ctx *Ctx, c *Case) {
	if ctx.OutDir == "" {
		return
	}
	c.Prop = ctx.Prop
	js, _ := json.Marshal(c)
	_ = os.WriteFile(filepath.Join(ctx.OutDir, fmt.Sprintf("%s.current.shard%d.json", ctx.Prop, ctx.Shard)), js, 0o644)
}

func replayC11(ctx *Ctx, c *Case) error { return checkC11(ctx, c, 25) }

func checkC11(ctx *Ctx, c *Case, rounds int) error {
	scaleBytes(c)
	t, err := mustType(c.Type)
	if err != nil {
		return err
	}
	d, err := decodeD(t, unhex(c.Bytes))
	if err != nil {
		return nil
	}
	announce(ctx, c)
	shared := model.BuildP(t, d.ProtoReflect())
	if digest(c.Bytes)%2 == 0 {
		// as an application would obtain it: through the generated decoder
		dec := t.New()
		if err := proto.Unmarshal(unhex(c.Bytes), dec); err == nil {
			shared = dec
		}
	}
	injectNils := func(m proto.Message) {
		// nil list elements / map values / wrapped messages in a quarter of the cases
		if digest(c.Bytes, "nil")%4 != 0 {
			return
		}
		sites := model.NilSites(m)
		for i := 0; i < len(sites) && i < 3; i++ {
			sites[(int(digest(c.Bytes, fmt.Sprint(i))%uint64(len(sites))))].Apply()
		}
	}
	injectNils(shared)
	if digest(c.Bytes, "emptycontainers")%4 == 0 {
		// unpopulated lists / maps / bytes held as empty non-nil containers (what
		// Mutable or clearing the last entry leaves behind): the same value
		model.SetEmptyContainers(shared)
	}
	if c.Sub == "nilbytes" || digest(c.Bytes, "flipbytes")%4 == 0 {
		// every empty bytes value (oneof member, list element, map value) held the
		// other way round, nil <-> []byte{}: what a hand-built message looks like
		if model.FlipEmptyBytes(shared) > 0 {
			ctx.Label("shared message with empty bytes values flipped nil <-> empty")
		}
	}
	c11SharedMsg, c11SharedViews = shared, nil
	for _, op := range c.Ops {
		if op.Op == "sharedviews" {
			// only then: collecting the views reads the message sequentially, and the
			// other cases keep their shared message untouched until the goroutines start
			collectViews(shared.ProtoReflect(), 0, &c11SharedViews)
			break
		}
	}
	byG := map[int][]Op{}
	maxG := 0
	for _, op := range c.Ops {
		byG[op.H] = append(byG[op.H], op)
		if op.H+1 > maxG {
			maxG = op.H + 1
		}
	}
	privs := make([]proto.Message, maxG)
	for g := range privs {
		privs[g] = model.BuildP(t, d.ProtoReflect())
		injectNils(privs[g])
	}
	if procs := c.argInt("procs"); procs > 0 {
		defer runtime.GOMAXPROCS(runtime.GOMAXPROCS(procs))
	}
	var want [][]string
	for round := 0; round < rounds; round++ {
		got := make([][]string, maxG)
		var wg sync.WaitGroup
		start := make(chan struct{})
		panics := make([]interface{}, maxG)
		for g := 0; g < maxG; g++ {
			wg.Add(1)
			go func(g int) {
				defer wg.Done()
				defer func() {
					if r := recover(); r != nil {
						panics[g] = r
					}
				}()
				<-start
				for _, op := range byG[g] {
					if op.Note == "yield" {
						runtime.Gosched()
					}
					got[g] = append(got[g], c11Op(op.Op, shared, privs[g]))
				}
			}(g)
		}
		close(start)
		wg.Wait()
		if want == nil {
			// The sequential reference is computed only AFTER the first concurrent
			// round, on an equal but separate message: the shared message - and,
			// for the first case of each type in a process, the type's own lazily
			// initialised state - is first touched by the concurrent readers.
			seq := model.BuildP(t, d.ProtoReflect())
			injectNils(seq)
			want = make([][]string, maxG)
			for g := 0; g < maxG; g++ {
				for _, op := range byG[g] {
					want[g] = append(want[g], c11Op(op.Op, seq, privs[g]))
				}
			}
		}
		for g := 0; g < maxG; g++ {
			if panics[g] != nil {
				return fmt.Errorf("goroutine %d panicked while reading the shared message: %v", g, panics[g])
			}
			for i := range want[g] {
				if i >= len(got[g]) || got[g][i] != want[g][i] {
					return fmt.Errorf("goroutine %d, operation %d (%s): concurrent result %q differs from the sequential result %q", g, i, byG[g][i].Op, safeIdx(got[g], i), want[g][i])
				}
			}
		}
	}
	if maxG >= 2 && canonD(d.ProtoReflect()) != "{}" {
		ctx.Nontrivial(c.Type, c.Bytes, fmt.Sprint(c.Ops))
		ctx.Label(fmt.Sprintf("goroutines=%d", maxG))
		if model.Depth(d.ProtoReflect()) >= 1 {
			ctx.Label("reaches nested messages")
		}
	} else {
		ctx.Label("trivial: empty value")
	}
	return nil
}

func safeIdx(s []string, i int) string {
	if i < len(s) {
		return s[i]
	}
	return "<missing>"
}
