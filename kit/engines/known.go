package engines

import (
	"encoding/json"
	"fmt"
	"os"
)

// KnownFinding is one entry of /verif/known_findings.json: a genuine defect
// that is recorded rather than repaired. Class names a narrow input class with
// (a) a probe that runs the minimal failing input against the real code and
// (b) a construction-time exclusion in the generators. Nothing is ever added
// to the file at run time.
type KnownFinding struct {
	ID       string `json:"id"`
	Property string `json:"property"`
	Class    string `json:"class"`
	What     string `json:"what"`
}

type knownFile struct {
	Findings []KnownFinding `json:"findings"`
	Fixed    []string       `json:"fixed"`
}

// probes: class -> does the defect still show on the current tree?
// A probe must fail closed: if it cannot run it reports "absent" so nothing is
// suppressed.
var probes = map[string]func() (present bool, detail string){}

func registerProbe(class string, f func() (bool, string)) { probes[class] = f }

func loadKnown(ctx *Ctx) {
	path := os.Getenv("VERIF_KNOWN")
	if path == "" {
		path = "/verif/known_findings.json"
	}
	js, err := os.ReadFile(path)
	if err != nil {
		return
	}
	var kf knownFile
	if err := json.Unmarshal(js, &kf); err != nil {
		fmt.Printf("HARNESS-ERROR bad known_findings.json: %v\n", err)
		ctx.T.Fail()
		return
	}
	for _, f := range kf.Findings {
		p := probes[f.Class]
		if p == nil {
			continue
		}
		present, detail := func() (pr bool, d string) {
			defer func() {
				if r := recover(); r != nil {
					pr, d = false, fmt.Sprintf("probe panicked in harness: %v", r)
				}
			}()
			return p()
		}()
		if !present {
			continue
		}
		// The class is excluded from generation in every engine (so the search
		// goes on behind it), but only the finding's own property reports it.
		ctx.avoid[f.Class] = true
		if f.Property == ctx.Prop {
			ctx.KnownFinding(f.ID, fmt.Sprintf("class=%s %s [%s]", f.Class, f.What, detail))
		}
	}
}
