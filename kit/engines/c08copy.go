package engines

import (
	"fmt"
	"sync"

	"google.golang.org/protobuf/reflect/protodesc"
	"google.golang.org/protobuf/reflect/protoreflect"
	"google.golang.org/protobuf/reflect/protoregistry"
	"pgregory.net/rapid"

	"verif/kit/model"
)

// Sub copydesc of C08: the operations are addressed with the field and oneof
// descriptors of an equal COPY of the type's file (protodesc.NewFile over the
// file's FileDescriptorProto) - what generic code holds that resolved its
// descriptors from a descriptor set rather than from the generated package. The
// generated reflection dispatches on full names, so it accepts them; the
// reference (dynamicpb over the type's own descriptor, addressed with its own
// descriptors) defines what each operation must do. An operation the generated
// code rejects by panicking is counted, not asserted (both references reject
// foreign descriptors that way): what is asserted is that an operation it
// accepts does what the same operation does with the type's own descriptors.

var copyDescs struct {
	sync.Mutex
	files map[string]*protoregistry.Files
}

func copyDescOf(t *model.Type) protoreflect.MessageDescriptor {
	copyDescs.Lock()
	defer copyDescs.Unlock()
	if copyDescs.files == nil {
		copyDescs.files = map[string]*protoregistry.Files{}
	}
	fs, ok := copyDescs.files[t.File]
	if !ok {
		fs = nil
		if cf, err := protodesc.NewFile(protodesc.ToFileDescriptorProto(t.Desc.ParentFile()), protoregistry.GlobalFiles); err == nil {
			fs = &protoregistry.Files{}
			if fs.RegisterFile(cf) != nil {
				fs = nil
			}
		}
		copyDescs.files[t.File] = fs
	}
	if fs == nil {
		return nil
	}
	d, err := fs.FindDescriptorByName(t.Name)
	if err != nil {
		return nil
	}
	md, _ := d.(protoreflect.MessageDescriptor)
	if md == t.Desc {
		return nil
	}
	return md
}

func runC08Copy(ctx *Ctx) {
	n := ctx.N(250, 3000)
	for _, t := range ctx.types() {
		t := t
		if t.Desc.Fields().Len() == 0 || copyDescOf(t) == nil {
			continue
		}
		fds := t.Desc.Fields()
		ctx.CheckRapid(string(t.Name)+"/copydesc", n, func(rt *rapid.T) *Case {
			cfg := ctx.streamCfg(false, false)
			cfg.MaxRecords = 8
			b := cfg.GenStream(rt, t.Desc, 0)
			if b == nil {
				b = []byte{}
			}
			c := &Case{Sub: "copydesc", Type: string(t.Name), Bytes: hexs(b)}
			for i, k := 0, rapid.IntRange(1, 10).Draw(rt, "nops"); i < k; i++ {
				fd := fds.Get(rapid.IntRange(0, fds.Len()-1).Draw(rt, "field"))
				op := Op{F: int(fd.Number())}
				choices := []string{"clear", "clear", "has", "get"}
				composite := fd.IsList() || fd.IsMap() || fd.Message() != nil
				if composite {
					choices = append(choices, "mutable", "mutable", "newfield")
				} else {
					choices = append(choices, "set", "set")
				}
				if fd.ContainingOneof() != nil {
					choices = append(choices, "which", "clear")
				}
				op.Op = rapid.SampledFrom(choices).Draw(rt, "op")
				switch {
				case op.Op == "set":
					op.V = hexs(model.DrawScalarPayload(rt, fd))
				case op.Op == "mutable" && fd.IsMap():
					op.K = hexs(model.DrawScalarPayload(rt, fd.MapKey()))
					if fd.MapValue().Message() == nil {
						op.V = hexs(model.DrawScalarPayload(rt, fd.MapValue()))
					}
				case op.Op == "mutable" && fd.IsList() && fd.Message() == nil:
					op.V = hexs(model.DrawScalarPayload(rt, fd))
				}
				c.Ops = append(c.Ops, op)
			}
			return c
		}, func(c *Case) error { return checkC08Copy(ctx, c) })
	}
}

func checkC08Copy(ctx *Ctx, c *Case) error {
	t, err := mustType(c.Type)
	if err != nil {
		return err
	}
	cmd := copyDescOf(t)
	if cmd == nil {
		return fmt.Errorf("HARNESS: no copy of the descriptor of %s", c.Type)
	}
	d, err := decodeD(t, unhex(c.Bytes))
	if err != nil {
		return nil
	}
	p := model.BuildP(t, d.ProtoReflect())
	pm, dm := p.ProtoReflect(), d.ProtoReflect()
	state := func(after string) error {
		if got, want := canonI(p), canonD(dm); got != want {
			return fmt.Errorf("%s, addressed with the descriptor of an equal copy of the file: the struct differs from the reference addressed with its own descriptor: %s", after, diffStr(got, want))
		}
		return nil
	}
	for i, op := range c.Ops {
		fd := t.Desc.Fields().ByNumber(protoreflect.FieldNumber(op.F))
		if fd == nil {
			continue
		}
		cfd := cmd.Fields().ByNumber(fd.Number())
		what := fmt.Sprintf("op %d: %s(%s)", i, op.Op, fd.Name())
		var mismatch error
		run := func(f func()) (panicked bool) {
			defer func() {
				if r := recover(); r != nil {
					panicked = true
				}
			}()
			f()
			return false
		}
		rejected := run(func() {
			switch op.Op {
			case "has":
				if g, w := pm.Has(cfd), dm.Has(fd); g != w {
					mismatch = fmt.Errorf("Has = %v, reference %v", g, w)
				}
			case "get":
				g, w := pm.Get(cfd), dm.Get(fd)
				switch {
				case fd.IsList():
					if g.List().Len() != w.List().Len() {
						mismatch = fmt.Errorf("Get: list of %d elements, reference %d", g.List().Len(), w.List().Len())
					}
				case fd.IsMap():
					if g.Map().Len() != w.Map().Len() {
						mismatch = fmt.Errorf("Get: map of %d entries, reference %d", g.Map().Len(), w.Map().Len())
					}
				default:
					if gs, ws := valStr(fd, g), valStr(fd, w); gs != ws {
						mismatch = fmt.Errorf("Get = %s, reference %s", trunc(gs, 200), trunc(ws, 200))
					}
				}
			case "clear":
				pm.Clear(cfd)
				dm.Clear(fd)
			case "set":
				v := model.DecodeScalar(fd, unhex(op.V))
				pm.Set(cfd, v)
				dm.Set(fd, v)
			case "newfield":
				pm.Set(cfd, pm.NewField(cfd))
				dm.Set(fd, dm.NewField(fd))
			case "which":
				od := fd.ContainingOneof()
				g, w := pm.WhichOneof(cmd.Oneofs().ByName(od.Name())), dm.WhichOneof(od)
				if (g == nil) != (w == nil) || (g != nil && g.Number() != w.Number()) {
					mismatch = fmt.Errorf("WhichOneof(%s) differs from the reference", od.Name())
				}
			case "mutable":
				pv, dv := pm.Mutable(cfd), dm.Mutable(fd)
				switch {
				case fd.IsList() && fd.Message() != nil:
					pv.List().Append(pv.List().NewElement())
					dv.List().Append(dv.List().NewElement())
				case fd.IsList():
					v := model.DecodeScalar(fd, unhex(op.V))
					pv.List().Append(v)
					dv.List().Append(v)
				case fd.IsMap():
					k := model.DecodeScalar(fd.MapKey(), unhex(op.K)).MapKey()
					if fd.MapValue().Message() != nil {
						pv.Map().Set(k, pv.Map().NewValue())
						dv.Map().Set(k, dv.Map().NewValue())
					} else {
						v := model.DecodeScalar(fd.MapValue(), unhex(op.V))
						pv.Map().Set(k, v)
						dv.Map().Set(k, v)
					}
				}
			}
		})
		if rejected {
			ctx.Label("copydesc: operation rejected by a panic (counted, not asserted)")
			return nil
		}
		if mismatch != nil {
			return fmt.Errorf("%s, addressed with the descriptor of an equal copy of the file: %v", what, mismatch)
		}
		if err := state("after " + what); err != nil {
			return err
		}
		ctx.Label("copydesc op:" + op.Op)
	}
	if len(c.Ops) > 0 {
		ctx.Nontrivial("copydesc", c.Type, c.Bytes, fmt.Sprint(c.Ops))
	}
	return nil
}
