package engines

import (
	"fmt"
	"os"
	"path/filepath"
	"sort"
	"strconv"
	"strings"

	cosmos_proto "github.com/cosmos/cosmos-proto"
	"google.golang.org/protobuf/proto"
	"google.golang.org/protobuf/reflect/protoreflect"
	"google.golang.org/protobuf/types/descriptorpb"
)

// A small parser for the proto3 grammar subset used by the seven .proto files
// whose generated code is checked in (syntax, package, import, option,
// message, nested message, enum, field with options, map field, oneof,
// service/rpc with option block, extend). It produces a flat, sorted listing
// of facts; the same listing is derived from the registered descriptor and
// the two are compared. Type references are compared by their last name
// component (scoping rules are not re-implemented); go_package is ignored.

type tok struct {
	kind byte // 'i' ident, 'n' number, 's' string, 'p' punctuation
	text string
}

func lexProto(src string) ([]tok, error) {
	var out []tok
	i := 0
	for i < len(src) {
		c := src[i]
		switch {
		case c == ' ' || c == '\t' || c == '\n' || c == '\r':
			i++
		case strings.HasPrefix(src[i:], "//"):
			for i < len(src) && src[i] != '\n' {
				i++
			}
		case strings.HasPrefix(src[i:], "/*"):
			j := strings.Index(src[i+2:], "*/")
			if j < 0 {
				return nil, fmt.Errorf("unterminated comment")
			}
			i += j + 4
		case c == '"' || c == '\'':
			j := i + 1
			var sb strings.Builder
			for j < len(src) && src[j] != c {
				if src[j] == '\\' && j+1 < len(src) {
					j++
				}
				sb.WriteByte(src[j])
				j++
			}
			out = append(out, tok{'s', sb.String()})
			i = j + 1
		case c == '-' || (c >= '0' && c <= '9'):
			j := i + 1
			for j < len(src) && (src[j] >= '0' && src[j] <= '9' || src[j] == 'x' || (src[j] >= 'a' && src[j] <= 'f') || (src[j] >= 'A' && src[j] <= 'F')) {
				j++
			}
			out = append(out, tok{'n', src[i:j]})
			i = j
		case c == '_' || c == '.' || (c >= 'a' && c <= 'z') || (c >= 'A' && c <= 'Z'):
			j := i + 1
			for j < len(src) && (src[j] == '_' || src[j] == '.' || (src[j] >= 'a' && src[j] <= 'z') || (src[j] >= 'A' && src[j] <= 'Z') || (src[j] >= '0' && src[j] <= '9')) {
				j++
			}
			out = append(out, tok{'i', src[i:j]})
			i = j
		default:
			out = append(out, tok{'p', string(c)})
			i++
		}
	}
	return out, nil
}

type protoParser struct {
	t     []tok
	i     int
	facts []string
	pkg   string
}

func (p *protoParser) peek() tok {
	if p.i < len(p.t) {
		return p.t[p.i]
	}
	return tok{}
}
func (p *protoParser) next() tok { t := p.peek(); p.i++; return t }
func (p *protoParser) expect(s string) error {
	if t := p.next(); t.text != s {
		return fmt.Errorf("expected %q, got %q at token %d", s, t.text, p.i)
	}
	return nil
}
func (p *protoParser) fact(format string, a ...interface{}) {
	p.facts = append(p.facts, fmt.Sprintf(format, a...))
}

func last(name string) string {
	name = strings.TrimPrefix(name, ".")
	if i := strings.LastIndex(name, "."); i >= 0 {
		return name[i+1:]
	}
	return name
}

// option: `option name = value ;` or `[(name) = value, ...]`
func (p *protoParser) optionName() string {
	var sb strings.Builder
	for {
		t := p.peek()
		if t.text == "=" || t.text == "" {
			break
		}
		sb.WriteString(p.next().text)
	}
	return sb.String()
}

func (p *protoParser) optionValue() string {
	t := p.next()
	return t.text
}

func (p *protoParser) fieldOptions(scope, name string) error {
	if p.peek().text != "[" {
		return nil
	}
	p.next()
	for {
		on := p.optionName()
		if err := p.expect("="); err != nil {
			return err
		}
		ov := p.optionValue()
		p.fact("fieldopt %s.%s %s=%s", scope, name, on, ov)
		if p.peek().text == "," {
			p.next()
			continue
		}
		break
	}
	return p.expect("]")
}

var scalarNames = map[string]bool{"double": true, "float": true, "int32": true, "int64": true, "uint32": true, "uint64": true, "sint32": true, "sint64": true,
	"fixed32": true, "fixed64": true, "sfixed32": true, "sfixed64": true, "bool": true, "string": true, "bytes": true}

func typeTok(s string) string {
	if scalarNames[s] {
		return s
	}
	return "ref:" + last(s)
}

func (p *protoParser) field(scope, oneof string) error {
	label := "singular"
	t := p.next()
	if t.text == "repeated" {
		label = "repeated"
		t = p.next()
	} else if t.text == "optional" {
		label = "optional"
		t = p.next()
	}
	var ty string
	if t.text == "map" {
		if err := p.expect("<"); err != nil {
			return err
		}
		k := p.next().text
		if err := p.expect(","); err != nil {
			return err
		}
		v := p.next().text
		if err := p.expect(">"); err != nil {
			return err
		}
		ty = "map<" + typeTok(k) + "," + typeTok(v) + ">"
		label = "map"
	} else {
		ty = typeTok(t.text)
	}
	name := p.next().text
	if err := p.expect("="); err != nil {
		return err
	}
	num := p.next().text
	p.fact("field %s.%s number=%s label=%s type=%s oneof=%s", scope, name, num, label, ty, oneof)
	if err := p.fieldOptions(scope, name); err != nil {
		return err
	}
	return p.expect(";")
}

func (p *protoParser) skipStatement() {
	for p.peek().text != ";" && p.peek().text != "" {
		p.next()
	}
	p.next()
}

func (p *protoParser) message(scope string) error {
	name := p.next().text
	full := name
	if scope != "" {
		full = scope + "." + name
	}
	p.fact("message %s", full)
	if err := p.expect("{"); err != nil {
		return err
	}
	for p.peek().text != "}" {
		switch p.peek().text {
		case "":
			return fmt.Errorf("unexpected end in message %s", full)
		case "message":
			p.next()
			if err := p.message(full); err != nil {
				return err
			}
		case "enum":
			p.next()
			if err := p.enum(full); err != nil {
				return err
			}
		case "oneof":
			p.next()
			on := p.next().text
			p.fact("oneof %s.%s", full, on)
			if err := p.expect("{"); err != nil {
				return err
			}
			for p.peek().text != "}" {
				if p.peek().text == "option" {
					p.skipStatement()
					continue
				}
				if err := p.field(full, on); err != nil {
					return err
				}
			}
			p.next()
		case "option":
			p.next()
			on := p.optionName()
			if err := p.expect("="); err != nil {
				return err
			}
			p.fact("msgopt %s %s=%s", full, on, p.optionValue())
			if err := p.expect(";"); err != nil {
				return err
			}
		case "reserved", "extensions":
			p.skipStatement()
		case ";":
			p.next()
		default:
			if err := p.field(full, ""); err != nil {
				return err
			}
		}
	}
	p.next()
	return nil
}

func (p *protoParser) enum(scope string) error {
	name := p.next().text
	full := name
	if scope != "" {
		full = scope + "." + name
	}
	p.fact("enum %s", full)
	if err := p.expect("{"); err != nil {
		return err
	}
	for p.peek().text != "}" {
		if p.peek().text == "option" || p.peek().text == "reserved" {
			p.skipStatement()
			continue
		}
		if p.peek().text == ";" {
			p.next()
			continue
		}
		vn := p.next().text
		if err := p.expect("="); err != nil {
			return err
		}
		num := p.next().text
		p.fact("enumvalue %s.%s=%s", full, vn, num)
		if p.peek().text == "[" {
			for p.peek().text != "]" {
				p.next()
			}
			p.next()
		}
		if err := p.expect(";"); err != nil {
			return err
		}
	}
	p.next()
	return nil
}

func (p *protoParser) service() error {
	name := p.next().text
	p.fact("service %s", name)
	if err := p.expect("{"); err != nil {
		return err
	}
	for p.peek().text != "}" {
		if p.peek().text == "option" {
			p.skipStatement()
			continue
		}
		if err := p.expect("rpc"); err != nil {
			return err
		}
		mn := p.next().text
		if err := p.expect("("); err != nil {
			return err
		}
		cs := ""
		if p.peek().text == "stream" {
			p.next()
			cs = "stream "
		}
		in := p.next().text
		if err := p.expect(")"); err != nil {
			return err
		}
		if err := p.expect("returns"); err != nil {
			return err
		}
		if err := p.expect("("); err != nil {
			return err
		}
		ss := ""
		if p.peek().text == "stream" {
			p.next()
			ss = "stream "
		}
		outT := p.next().text
		if err := p.expect(")"); err != nil {
			return err
		}
		p.fact("rpc %s.%s (%s%s) returns (%s%s)", name, mn, cs, last(in), ss, last(outT))
		if p.peek().text == "{" {
			p.next()
			for p.peek().text != "}" {
				if p.peek().text == ";" {
					p.next()
					continue
				}
				if err := p.expect("option"); err != nil {
					return err
				}
				on := p.optionName()
				if err := p.expect("="); err != nil {
					return err
				}
				p.fact("rpcopt %s.%s %s=%s", name, mn, on, p.optionValue())
				if err := p.expect(";"); err != nil {
					return err
				}
			}
			p.next()
		} else if err := p.expect(";"); err != nil {
			return err
		}
	}
	p.next()
	return nil
}

func parseProtoFacts(src string) ([]string, error) {
	toks, err := lexProto(src)
	if err != nil {
		return nil, err
	}
	p := &protoParser{t: toks}
	for p.i < len(p.t) {
		switch t := p.next(); t.text {
		case "syntax":
			if err := p.expect("="); err != nil {
				return nil, err
			}
			p.fact("syntax %s", p.next().text)
			if err := p.expect(";"); err != nil {
				return nil, err
			}
		case "package":
			p.pkg = p.next().text
			p.fact("package %s", p.pkg)
			if err := p.expect(";"); err != nil {
				return nil, err
			}
		case "import":
			if p.peek().text == "public" || p.peek().text == "weak" {
				p.next()
			}
			p.fact("import %s", p.next().text)
			if err := p.expect(";"); err != nil {
				return nil, err
			}
		case "option":
			on := p.optionName()
			if err := p.expect("="); err != nil {
				return nil, err
			}
			ov := p.optionValue()
			if on != "go_package" {
				p.fact("fileopt %s=%s", on, ov)
			}
			if err := p.expect(";"); err != nil {
				return nil, err
			}
		case "message":
			if err := p.message(""); err != nil {
				return nil, err
			}
		case "enum":
			if err := p.enum(""); err != nil {
				return nil, err
			}
		case "service":
			if err := p.service(); err != nil {
				return nil, err
			}
		case "extend":
			ext := p.next().text
			if err := p.expect("{"); err != nil {
				return nil, err
			}
			for p.peek().text != "}" {
				if err := p.field("extend:"+last(ext), ""); err != nil {
					return nil, err
				}
			}
			p.next()
		case ";":
		default:
			return nil, fmt.Errorf("unexpected top-level token %q", t.text)
		}
	}
	sort.Strings(p.facts)
	return p.facts, nil
}

// ---- the same listing from a registered descriptor ---------------------

func kindTok(fd protoreflect.FieldDescriptor) string {
	switch fd.Kind() {
	case protoreflect.MessageKind, protoreflect.GroupKind:
		return "ref:" + string(fd.Message().Name())
	case protoreflect.EnumKind:
		return "ref:" + string(fd.Enum().Name())
	}
	return fd.Kind().String()
}

func relName(pkg protoreflect.FullName, full protoreflect.FullName) string {
	return strings.TrimPrefix(strings.TrimPrefix(string(full), string(pkg)), ".")
}

func cosmosFieldOpts(o proto.Message) map[string]string {
	out := map[string]string{}
	add := func(xt protoreflect.ExtensionType) {
		if proto.HasExtension(o, xt) {
			switch v := proto.GetExtension(o, xt).(type) {
			case string:
				out["("+string(xt.TypeDescriptor().FullName())+")"] = v
			case []string:
				for _, s := range v {
					out["("+string(xt.TypeDescriptor().FullName())+")"] = s
				}
			}
		}
	}
	for _, xt := range []protoreflect.ExtensionType{cosmos_proto.E_AcceptsInterface, cosmos_proto.E_Scalar, cosmos_proto.E_FieldAddedIn,
		cosmos_proto.E_ImplementsInterface, cosmos_proto.E_MessageAddedIn, cosmos_proto.E_MethodAddedIn, cosmos_proto.E_FileAddedIn} {
		add(xt)
	}
	return out
}

func descriptorFacts(fd protoreflect.FileDescriptor) []string {
	var facts []string
	fact := func(format string, a ...interface{}) { facts = append(facts, fmt.Sprintf(format, a...)) }
	fact("syntax %s", fd.Syntax().String())
	if fd.Package() != "" {
		fact("package %s", fd.Package())
	}
	for i := 0; i < fd.Imports().Len(); i++ {
		fact("import %s", fd.Imports().Get(i).Path())
	}
	if fo, ok := fd.Options().(*descriptorpb.FileOptions); ok && fo != nil {
		for k, v := range cosmosFieldOpts(fo) {
			fact("fileopt %s=%s", k, v)
		}
	}
	var doEnum func(ed protoreflect.EnumDescriptor)
	doEnum = func(ed protoreflect.EnumDescriptor) {
		n := relName(fd.Package(), ed.FullName())
		fact("enum %s", n)
		for i := 0; i < ed.Values().Len(); i++ {
			v := ed.Values().Get(i)
			fact("enumvalue %s.%s=%d", n, v.Name(), v.Number())
		}
	}
	doField := func(scope string, f protoreflect.FieldDescriptor) {
		label, ty := "singular", kindTok(f)
		switch {
		case f.IsMap():
			label = "map"
			ty = "map<" + kindTok(f.MapKey()) + "," + kindTok(f.MapValue()) + ">"
		case f.IsList():
			label = "repeated"
		case f.HasOptionalKeyword():
			label = "optional"
		}
		oneof := ""
		if od := f.ContainingOneof(); od != nil && !od.IsSynthetic() {
			oneof = string(od.Name())
		}
		fact("field %s.%s number=%d label=%s type=%s oneof=%s", scope, f.Name(), f.Number(), label, ty, oneof)
		if o, ok := f.Options().(*descriptorpb.FieldOptions); ok && o != nil {
			for k, v := range cosmosFieldOpts(o) {
				fact("fieldopt %s.%s %s=%s", scope, f.Name(), k, v)
			}
			if o.Packed != nil {
				fact("fieldopt %s.%s packed=%v", scope, f.Name(), o.GetPacked())
			}
		}
	}
	var doMsg func(md protoreflect.MessageDescriptor)
	doMsg = func(md protoreflect.MessageDescriptor) {
		if md.IsMapEntry() {
			return
		}
		n := relName(fd.Package(), md.FullName())
		fact("message %s", n)
		if o, ok := md.Options().(*descriptorpb.MessageOptions); ok && o != nil {
			for k, v := range cosmosFieldOpts(o) {
				fact("msgopt %s %s=%s", n, k, v)
			}
		}
		for i := 0; i < md.Oneofs().Len(); i++ {
			if od := md.Oneofs().Get(i); !od.IsSynthetic() {
				fact("oneof %s.%s", n, od.Name())
			}
		}
		for i := 0; i < md.Fields().Len(); i++ {
			doField(n, md.Fields().Get(i))
		}
		for i := 0; i < md.Enums().Len(); i++ {
			doEnum(md.Enums().Get(i))
		}
		for i := 0; i < md.Messages().Len(); i++ {
			doMsg(md.Messages().Get(i))
		}
	}
	for i := 0; i < fd.Messages().Len(); i++ {
		doMsg(fd.Messages().Get(i))
	}
	for i := 0; i < fd.Enums().Len(); i++ {
		doEnum(fd.Enums().Get(i))
	}
	for i := 0; i < fd.Extensions().Len(); i++ {
		x := fd.Extensions().Get(i)
		doField("extend:"+string(x.ContainingMessage().Name()), x)
	}
	for i := 0; i < fd.Services().Len(); i++ {
		sd := fd.Services().Get(i)
		fact("service %s", sd.Name())
		for j := 0; j < sd.Methods().Len(); j++ {
			m := sd.Methods().Get(j)
			cs, ss := "", ""
			if m.IsStreamingClient() {
				cs = "stream "
			}
			if m.IsStreamingServer() {
				ss = "stream "
			}
			fact("rpc %s.%s (%s%s) returns (%s%s)", sd.Name(), m.Name(), cs, m.Input().Name(), ss, m.Output().Name())
			if o, ok := m.Options().(*descriptorpb.MethodOptions); ok && o != nil {
				for k, v := range cosmosFieldOpts(o) {
					fact("rpcopt %s.%s %s=%s", sd.Name(), m.Name(), k, v)
				}
			}
		}
	}
	sort.Strings(facts)
	return facts
}

var sourceOf = map[string]string{
	"1.proto": "testpb/1.proto", "2.proto": "testpb/2.proto", "3.proto": "testpb/3.proto",
	"internal/testprotos/test3/test.proto":         "internal/testprotos/test3/test.proto",
	"internal/testprotos/test3/test_import.proto":  "internal/testprotos/test3/test_import.proto",
	"internal/testprotos/test3/test_nesting.proto": "internal/testprotos/test3/test_nesting.proto",
	"cosmos_proto/cosmos.proto":                    "proto/cosmos_proto/cosmos.proto",
}

func init() {
	compareWithSource = func(ctx *Ctx, reg protoreflect.FileDescriptor, tick func(string)) error {
		repo := os.Getenv("VERIF_REPO")
		if repo == "" {
			repo = "/repo"
		}
		rel, ok := sourceOf[reg.Path()]
		if !ok {
			return nil
		}
		src, err := os.ReadFile(filepath.Join(repo, rel))
		if err != nil {
			return fmt.Errorf("HARNESS: cannot read schema source %s: %v", rel, err)
		}
		want, err := parseProtoFacts(string(src))
		if err != nil {
			return fmt.Errorf("HARNESS: cannot parse %s with the subset parser: %v", rel, err)
		}
		got := descriptorFacts(reg)
		gs, ws := map[string]bool{}, map[string]bool{}
		for _, f := range got {
			gs[f] = true
		}
		for _, f := range want {
			ws[f] = true
		}
		for _, f := range want {
			tick("schema fact " + f)
			if !gs[f] {
				return fmt.Errorf("schema %s declares %q but the registered descriptor of the generated package does not (it has %d facts; nearest: %s)", rel, f, len(got), nearest(f, got))
			}
		}
		for _, f := range got {
			if !ws[f] {
				return fmt.Errorf("registered descriptor for %s has %q which the schema source does not declare (nearest: %s)", rel, f, nearest(f, want))
			}
		}
		_ = strconv.Itoa
		return nil
	}
}

func nearest(f string, in []string) string {
	key := f
	if i := strings.Index(f, " number="); i > 0 {
		key = f[:i]
	} else if j := strings.LastIndex(f, "="); j > 0 {
		key = f[:j]
	}
	for _, g := range in {
		if strings.HasPrefix(g, key) {
			return g
		}
	}
	return "-"
}
