package engines

import (
	"bytes"
	"crypto/sha256"
	"fmt"
	"os"
	"sort"
	"strings"
	"sync"
	"time"

	"google.golang.org/protobuf/proto"
	"google.golang.org/protobuf/types/descriptorpb"
	"google.golang.org/protobuf/types/pluginpb"
	"pgregory.net/rapid"

	"verif/kit/plug"
	"verif/kit/schema"
)

func init() {
	register(&Engine{
		ID:   "C13",
		Desc: "code generation is deterministic and hermetic",
		Rule: "requests over the schema corpus (fixed matrix + 2 random schemas per seed) and parameter strings {default, features=fast+protoc, features=protoc+fast, paths=source_relative}; metamorphic variants drawn by rapid: repeat (K fresh processes, byte-identical raw responses), permute (files_to_generate shuffled, proto_file re-ordered among valid topological orders), subset (a file generated alone vs together with a drawn subset of the others), env (different cwd, HOME, TZ, PATH, argv[0], extra variable; content must not contain cwd, hostname, user, the variable's value or today's date). Oracle: identical content per generated file. Non-trivial: request generating >= 2 files with >= 3 messages (permute/subset) or any repeat/env run; distinct by digest of the variant.",
		Run:  runC13, Replay: func(ctx *Ctx, c *Case) error { return checkC13(ctx, c) },
		Assumptions: []string{"map-iteration nondeterminism is sampled by K process repetitions", "units the plugin refuses (C12's business) are left out"},
	})
}

type c13World struct {
	bin   string
	units []*schema.Unit
	uni   *plug.Universe
	names []string // proto file names of usable units, sorted
	groups [][]string // files that import each other inside the universe
	mu    sync.Mutex
	cache map[string]map[string]string // request key -> file name -> content
}

var c13w *c13World

func c13World_(ctx *Ctx) (*c13World, error) {
	if c13w != nil {
		return c13w, nil
	}
	bin := os.Getenv("VERIF_PLUGIN")
	if bin == "" {
		return nil, fmt.Errorf("HARNESS: VERIF_PLUGIN not set")
	}
	w := &c13World{bin: bin, cache: map[string]map[string]string{}}
	w.units = schema.FixedCorpus()
	for i := 0; i < 2; i++ {
		w.units = append(w.units, schema.RandomUnit(ctx.Seed, i, ctx.AvoidSet()))
	}
	// files whose names are not clean relative paths (the plugin protocol does not forbid them)
	for i, name := range []string{"/verifabs/protos/absname.proto", "../../../up/relname.proto"} {
		f := schema.NewFile(name, fmt.Sprintf("verif.oddname%d", i), fmt.Sprintf("%soddname%d", schema.GoRoot, i))
		m := f.Msg("Odd")
		m.F("a", 1, schema.S(schema.Int32))
		m.Map("m", 2, schema.String, schema.S(schema.Bool))
		f.Msg("Other").F("o", 1, schema.M(fmt.Sprintf("verif.oddname%d.Odd", i)))
		w.units = append(w.units, &schema.Unit{Name: fmt.Sprintf("oddname%d", i), File: f, Label: []string{"file name that is not a clean relative path"}})
	}
	var protos []*descriptorpb.FileDescriptorProto
	for _, u := range w.units {
		protos = append(protos, u.File.P)
	}
	w.uni = plug.NewUniverse(protos...)
	for _, u := range w.units {
		req, err := w.uni.Request("", u.File.P.GetName())
		if err != nil {
			return nil, fmt.Errorf("HARNESS: %v", err)
		}
		res, err := plug.Run(bin, req, nil)
		if err != nil || res.ExitCode != 0 || res.Resp.Error != nil || len(res.Resp.File) == 0 {
			continue // not usable: C12 reports it
		}
		w.names = append(w.names, u.File.P.GetName())
	}
	sort.Strings(w.names)
	// groups of files that depend on each other (importer + its imports inside the
	// universe; for importers of several files also importer + each single import)
	usable := map[string]bool{}
	for _, n := range w.names {
		usable[n] = true
	}
	for _, u := range w.units {
		if !usable[u.File.P.GetName()] {
			continue
		}
		var deps []string
		for _, d := range u.File.P.Dependency {
			if usable[d] {
				deps = append(deps, d)
			}
		}
		if len(deps) == 0 {
			continue
		}
		w.groups = append(w.groups, append([]string{u.File.P.GetName()}, deps...))
		if len(deps) > 1 {
			for _, d := range deps {
				w.groups = append(w.groups, []string{u.File.P.GetName(), d})
			}
		}
	}
	if len(w.groups) == 0 {
		w.groups = [][]string{{w.names[0]}}
	}
	c13w = w
	return w, nil
}

func contentMap(resp *pluginpb.CodeGeneratorResponse) map[string]string {
	m := map[string]string{}
	for _, f := range resp.File {
		m[f.GetName()] = f.GetContent()
	}
	return m
}

func (w *c13World) base(param string, gen []string) (map[string]string, error) {
	g := append([]string{}, gen...)
	sort.Strings(g)
	key := param + "|" + strings.Join(g, ",")
	w.mu.Lock()
	if m, ok := w.cache[key]; ok {
		w.mu.Unlock()
		return m, nil
	}
	w.mu.Unlock()
	req, err := w.uni.Request(param, g...)
	if err != nil {
		return nil, fmt.Errorf("HARNESS: %v", err)
	}
	res, err := plug.Run(w.bin, req, nil)
	if err != nil {
		return nil, fmt.Errorf("HARNESS: %v", err)
	}
	if res.ExitCode != 0 || res.Resp.Error != nil {
		return nil, fmt.Errorf("HARNESS: base request failed (C12's business): exit %d %s %s", res.ExitCode, res.Resp.GetError(), trunc(res.Stderr, 300))
	}
	m := contentMap(res.Resp)
	w.mu.Lock()
	w.cache[key] = m
	w.mu.Unlock()
	return m, nil
}

var c13params = []string{"", "features=fast+protoc", "features=protoc+fast", "paths=source_relative"}

func runC13(ctx *Ctx) {
	w, err := c13World_(ctx)
	if err != nil {
		fmt.Printf("HARNESS-ERROR %v\n", err)
		ctx.T.Fail()
		return
	}
	if len(w.names) < 3 {
		fmt.Printf("HARNESS-ERROR fewer than 3 usable schema units\n")
		ctx.T.Fail()
		return
	}
	per := func(q, th int) int {
		n := ctx.N(q, th) / ctx.NShards
		if n < 2 {
			n = 2
		}
		return n
	}
	pick := func(rt *rapid.T, min, max int) []string {
		k := rapid.IntRange(min, max).Draw(rt, "nfiles")
		idx := rapid.Permutation(intsUpTo(len(w.names))).Draw(rt, "files")
		var out []string
		for _, i := range idx[:k] {
			out = append(out, w.names[i])
		}
		// files that import each other (across Go packages, or as siblings of one
		// Go package) must often be generated together
		if rapid.IntRange(0, 1).Draw(rt, "pair") == 0 {
			pairs := w.groups
			for _, n := range pairs[rapid.IntRange(0, len(pairs)-1).Draw(rt, "whichpair")] {
				has, usable := false, false
				for _, o := range out {
					has = has || o == n
				}
				for _, u := range w.names {
					usable = usable || u == n
				}
				if !has && usable {
					out = append(out, n)
				}
			}
			rapid.Permutation(out).Draw(rt, "order")
		}
		return out
	}
	if ctx.Shard == 0 {
		// one request for every usable file at once, repeated in fresh processes
		c := &Case{Sub: "repeat", Args: map[string]string{"files": strings.Join(w.names, ","), "param": "", "k": fmt.Sprint(ctx.N(6, 40))}}
		ctx.Eval(1)
		if err := safely(func() error { return checkC13(ctx, c) }); err != nil {
			if strings.HasPrefix(err.Error(), "HARNESS") {
				fmt.Printf("HARNESS-ERROR %v\n", err)
			} else {
				ctx.Violation(c, err.Error())
			}
			ctx.T.Fail()
		}
	}
	ctx.CheckRapid("repeat", per(24, 200), func(rt *rapid.T) *Case {
		files := pick(rt, 1, 4)
		return &Case{Sub: "repeat", Args: map[string]string{"files": strings.Join(files, ","), "param": rapid.SampledFrom(c13params).Draw(rt, "param"), "k": fmt.Sprint(ctx.N(5, 40))}}
	}, func(c *Case) error { return checkC13(ctx, c) })
	ctx.CheckRapid("permute", per(40, 400), func(rt *rapid.T) *Case {
		files := pick(rt, 2, 6)
		return &Case{Sub: "permute", Args: map[string]string{"files": strings.Join(files, ","), "param": rapid.SampledFrom(c13params).Draw(rt, "param"),
			"toposeed": fmt.Sprint(rapid.Uint32().Draw(rt, "toposeed"))}}
	}, func(c *Case) error { return checkC13(ctx, c) })
	ctx.CheckRapid("subset", per(40, 400), func(rt *rapid.T) *Case {
		files := pick(rt, 2, 5)
		return &Case{Sub: "subset", Args: map[string]string{"files": strings.Join(files, ","), "param": rapid.SampledFrom(c13params).Draw(rt, "param")}}
	}, func(c *Case) error { return checkC13(ctx, c) })
	ctx.CheckRapid("env", per(24, 200), func(rt *rapid.T) *Case {
		files := pick(rt, 1, 3)
		return &Case{Sub: "env", Args: map[string]string{"files": strings.Join(files, ","), "param": rapid.SampledFrom(c13params).Draw(rt, "param"),
			"tz": rapid.SampledFrom([]string{"UTC", "Asia/Tokyo", "America/Los_Angeles", ""}).Draw(rt, "tz"),
			"tag": rapid.StringMatching("[a-z]{6,10}").Draw(rt, "tag")}}
	}, func(c *Case) error { return checkC13(ctx, c) })
}

func intsUpTo(n int) []int {
	out := make([]int, n)
	for i := range out {
		out[i] = i
	}
	return out
}

// topoOrder returns a valid topological order of files chosen by seed.
func topoOrder(files []*descriptorpb.FileDescriptorProto, seed uint32) []*descriptorpb.FileDescriptorProto {
	byName := map[string]*descriptorpb.FileDescriptorProto{}
	for _, f := range files {
		byName[f.GetName()] = f
	}
	done := map[string]bool{}
	var out []*descriptorpb.FileDescriptorProto
	x := uint64(seed)*2862933555777941757 + 3037000493
	for len(out) < len(files) {
		var ready []*descriptorpb.FileDescriptorProto
		for _, f := range files {
			if done[f.GetName()] {
				continue
			}
			ok := true
			for _, d := range f.Dependency {
				if _, in := byName[d]; in && !done[d] {
					ok = false
				}
			}
			if ok {
				ready = append(ready, f)
			}
		}
		x = x*6364136223846793005 + 1442695040888963407
		f := ready[int(x>>33)%len(ready)]
		done[f.GetName()] = true
		out = append(out, f)
	}
	return out
}

func diffContent(a, b map[string]string) string {
	for name, ca := range a {
		cb, ok := b[name]
		if !ok {
			return fmt.Sprintf("file %s missing from the variant response", name)
		}
		if ca != cb {
			la, lb := strings.Split(ca, "\n"), strings.Split(cb, "\n")
			for i := 0; i < len(la) && i < len(lb); i++ {
				if la[i] != lb[i] {
					return fmt.Sprintf("file %s differs at line %d: %q vs %q", name, i+1, trunc(la[i], 160), trunc(lb[i], 160))
				}
			}
			return fmt.Sprintf("file %s differs in length (%d vs %d lines)", name, len(la), len(lb))
		}
	}
	return ""
}

func checkC13(ctx *Ctx, c *Case) error {
	w, err := c13World_(ctx)
	if err != nil {
		return err
	}
	files := strings.Split(c.arg("files"), ",")
	param := c.arg("param")
	for _, f := range files {
		ok := false
		for _, n := range w.names {
			ok = ok || n == f
		}
		if !ok {
			return fmt.Errorf("HARNESS: unit %s not usable on this tree", f)
		}
	}
	sorted := append([]string{}, files...)
	sort.Strings(sorted)
	base, err := w.base(param, sorted)
	if err != nil {
		return err
	}
	if len(base) == 0 {
		return fmt.Errorf("HARNESS: base response has no files")
	}
	switch c.Sub {
	case "repeat":
		req, _ := w.uni.Request(param, sorted...)
		in, _ := proto.Marshal(req)
		var first []byte
		k := c.argInt("k")
		if k < 2 {
			k = 5
		}
		for i := 0; i < k; i++ {
			res, err := plug.RunRaw(w.bin, in, nil)
			if err != nil || res.ExitCode != 0 {
				return fmt.Errorf("HARNESS: plugin run failed: %v", err)
			}
			if first == nil {
				first = res.Raw
			} else if !bytes.Equal(first, res.Raw) {
				r0 := &pluginpb.CodeGeneratorResponse{}
				_ = proto.Unmarshal(first, r0)
				return fmt.Errorf("run %d of the same request gave a different response: %s", i+1, diffContent(contentMap(r0), contentMap(res.Resp)))
			}
		}
		ctx.LabelN("plugin processes", k)
	case "permute":
		req, _ := w.uni.Request(param, files...) // files_to_generate in drawn order
		seed := uint32(c.argInt("toposeed"))
		req.ProtoFile = topoOrder(req.ProtoFile, seed)
		res, err := plug.Run(w.bin, req, nil)
		if err != nil || res.ExitCode != 0 || res.Resp.Error != nil {
			return fmt.Errorf("plugin failed on a permuted request that succeeds in canonical order: %v exit=%d %s", err, res.ExitCode, res.Resp.GetError())
		}
		if d := diffContent(base, contentMap(res.Resp)); d != "" {
			return fmt.Errorf("content depends on the order of files_to_generate / proto_file: %s", d)
		}
		if len(res.Resp.File) != len(base) {
			return fmt.Errorf("permuted request generated %d files, canonical %d", len(res.Resp.File), len(base))
		}
	case "subset":
		// every file alone must equal its content when generated with the others
		for _, f := range files {
			alone, err := w.base(param, []string{f})
			if err != nil {
				return err
			}
			for name, ca := range alone {
				if cb, ok := base[name]; !ok || ca != cb {
					return fmt.Errorf("content of %s depends on the co-generated files %v: %s", name, files, diffContent(map[string]string{name: ca}, base))
				}
			}
		}
	case "env":
		dir, err := os.MkdirTemp("", "c13-"+c.arg("tag")+"-")
		if err != nil {
			return fmt.Errorf("HARNESS: %v", err)
		}
		defer os.RemoveAll(dir)
		req, _ := w.uni.Request(param, sorted...)
		env := []string{"HOME=" + dir, "PATH=/nonexistent:" + dir, "VERIF_MARK=" + c.arg("tag") + "MARK", "USER=" + c.arg("tag") + "user", "HOSTNAME=" + c.arg("tag") + "host", "PWD=" + dir}
		if tz := c.arg("tz"); tz != "" {
			env = append(env, "TZ="+tz)
		}
		res, err := plug.Run(w.bin, req, &plug.RunOpt{Dir: dir, Env: env, Argv0: "/some/where/" + c.arg("tag") + "-plugin"})
		if err != nil || res.ExitCode != 0 || res.Resp.Error != nil {
			return fmt.Errorf("plugin failed in a changed environment: %v exit=%d %s %s", err, res.ExitCode, res.Resp.GetError(), trunc(res.Stderr, 300))
		}
		got := contentMap(res.Resp)
		if d := diffContent(base, got); d != "" {
			return fmt.Errorf("content depends on the process environment: %s", d)
		}
		host, _ := os.Hostname()
		today := time.Now().Format("2006-01-02")
		for name, content := range got {
			for _, bad := range []string{dir, c.arg("tag") + "MARK", c.arg("tag") + "user", c.arg("tag") + "host", c.arg("tag") + "-plugin", today} {
				if strings.Contains(content, bad) {
					return fmt.Errorf("generated file %s contains environment-dependent text %q", name, bad)
				}
			}
			if len(host) > 3 && strings.Contains(content, host) {
				return fmt.Errorf("generated file %s contains the host name", name)
			}
		}
	default:
		return fmt.Errorf("HARNESS: unknown sub %q", c.Sub)
	}
	h := sha256.Sum256([]byte(fmt.Sprint(c.Sub, c.Args)))
	nmsg := 0
	for _, content := range base {
		nmsg += strings.Count(content, ") ProtoReflect() protoreflect.Message")
	}
	if (len(base) >= 2 && nmsg >= 3) || c.Sub == "repeat" || c.Sub == "env" {
		ctx.Nontrivial(string(h[:]))
	} else {
		ctx.Label("trivial: single small file")
	}
	ctx.Label("sub=" + c.Sub)
	ctx.Label("param=" + param)
	return nil
}
