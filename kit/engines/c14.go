package engines

import (
	"bytes"
	"fmt"
	"regexp"

	"google.golang.org/protobuf/encoding/protowire"
	"google.golang.org/protobuf/proto"
	"google.golang.org/protobuf/reflect/protoreflect"
	"google.golang.org/protobuf/runtime/protoiface"
	"pgregory.net/rapid"

	"verif/kit/model"
)

func init() {
	register(&Engine{
		ID:   "C14",
		Desc: "unknown fields are kept exactly, or dropped everywhere when asked",
		Rule: "per generated type: a well-typed stream with unknown records (varint, fixed32, fixed64, bytes, groups incl. nested groups; 1..5-byte tags; field numbers absent from the schema) injected at drawn positions of every message node (top level, singular child, list element, map value, oneof member, nested well-known types) plus a drawn replacement set for SetUnknown. Oracle: every node's unknown set == dynamicpb's byte for byte (struct read by protoimpl and by generated GetUnknown), no known field number in any unknown set, re-marshal == spec encoder (unknown after known) == reference bytes, DiscardUnknown leaves no unknown bytes at any depth and nothing else changes, SetUnknown/GetUnknown round trip and marshal suffix. Non-trivial: >= 1 unknown record below the top level; distinct by digest of (type, bytes).",
		Run:  runC14, Replay: func(ctx *Ctx, c *Case) error { return checkC14(ctx, c) },
		Assumptions: []string{"dynamicpb keeps unknown records raw and in arrival order (reference)", "tags of unknown records are minimal (see DESIGN: protobuf-go's table decoder re-encodes them inside nested well-known types)"},
	})
}

func runC14(ctx *Ctx) {
	n := ctx.N(4000, 40000)
	for _, t := range ctx.types() {
		t := t
		ctx.CheckRapid(string(t.Name), n, func(rt *rapid.T) *Case {
			b, d := ctx.genTypeStream(rt, t, true, false)
			if d == nil {
				return nil
			}
			cfg := ctx.streamCfg(true, false)
			var u []byte
			for i, k := 0, rapid.IntRange(0, 3).Draw(rt, "nset"); i < k; i++ {
				u = cfg.UnknownRecord(rt, u, t.Desc)
			}
			return &Case{Type: string(t.Name), Bytes: hexs(b), Bytes2: hexs(u)}
		}, func(c *Case) error { return checkC14(ctx, c) })
	}
}

var unknownSeg = regexp.MustCompile(`\?[0-9a-f]+`)

// checkNoKnownInUnknown walks a message (through view) and verifies that no
// record in any node's unknown set carries a field number the node declares.
func checkNoKnownInUnknown(m protoreflect.Message, view model.Viewer, path string, nested *int, depth int) error {
	m = view(m)
	if u := m.GetUnknown(); len(u) > 0 {
		recs, ok := model.SplitRecords(u)
		if !ok {
			return fmt.Errorf("unknown set at %q is not a well-formed record sequence: %s", path, hexs(u))
		}
		for _, r := range recs {
			if m.Descriptor().Fields().ByNumber(r.Num) != nil {
				return fmt.Errorf("known field %d landed in the unknown set at %q: %s", r.Num, path, hexs(r.Raw))
			}
		}
		if depth > 0 {
			*nested += len(recs)
		}
	}
	var err error
	m.Range(func(fd protoreflect.FieldDescriptor, v protoreflect.Value) bool {
		p := fmt.Sprintf("%s.%s", path, fd.Name())
		switch {
		case fd.IsList() && fd.Message() != nil:
			for i := 0; i < v.List().Len() && err == nil; i++ {
				err = checkNoKnownInUnknown(v.List().Get(i).Message(), view, p, nested, depth+1)
			}
		case fd.IsMap() && fd.MapValue().Message() != nil:
			v.Map().Range(func(_ protoreflect.MapKey, mv protoreflect.Value) bool {
				err = checkNoKnownInUnknown(mv.Message(), view, p, nested, depth+1)
				return err == nil
			})
		case fd.Message() != nil && !fd.IsMap() && !fd.IsList():
			err = checkNoKnownInUnknown(v.Message(), view, p, nested, depth+1)
		}
		return err == nil
	})
	return err
}

func checkC14(ctx *Ctx, c *Case) error {
	t, err := mustType(c.Type)
	if err != nil {
		return err
	}
	b := unhex(c.Bytes)
	d, err := decodeD(t, b)
	if err != nil {
		return nil
	}
	want := canonD(d.ProtoReflect())
	p := t.New()
	if err := proto.Unmarshal(b, p); err != nil {
		return fmt.Errorf("Unmarshal rejected a well-typed stream: %v", err)
	}
	if got := canonI(p); got != want {
		return fmt.Errorf("unknown/known state differs from reference (struct read by protoimpl): %s", diffStr(got, want))
	}
	if got := canonP(p); got != want {
		return fmt.Errorf("unknown/known state differs from reference (read by generated GetUnknown/Get): %s", diffStr(got, want))
	}
	nested := 0
	if err := checkNoKnownInUnknown(p.ProtoReflect(), model.Impl, "", &nested, 0); err != nil {
		return err
	}
	// re-encoding: known fields, then the unknown bytes unchanged
	out, err := det.Marshal(p)
	if err != nil {
		return fmt.Errorf("Marshal failed: %v", err)
	}
	sb := model.SpecEncode(d.ProtoReflect())
	db, _ := det.Marshal(d)
	if bytes.Equal(sb, db) && !bytes.Equal(out, sb) {
		return fmt.Errorf("re-encoding differs from known-fields-then-unknown-bytes layout: %s", diffStr(hexs(out), hexs(sb)))
	}
	if u := d.GetUnknown(); len(u) > 0 && !bytes.HasSuffix(out, u) {
		return fmt.Errorf("top-level unknown bytes are not the suffix of the re-encoding")
	}
	// DiscardUnknown
	p2 := t.New()
	if err := (proto.UnmarshalOptions{DiscardUnknown: true}).Unmarshal(b, p2); err != nil {
		return fmt.Errorf("Unmarshal with DiscardUnknown failed: %v", err)
	}
	wantDiscard := unknownSeg.ReplaceAllString(want, "")
	d2 := t.NewD()
	if err := (proto.UnmarshalOptions{DiscardUnknown: true, AllowPartial: true}).Unmarshal(b, d2); err == nil {
		if ref := canonD(d2.ProtoReflect()); ref != wantDiscard {
			ctx.Label("references disagree: DiscardUnknown on dynamicpb vs stripped value (not asserted)")
			wantDiscard = ""
		}
	}
	if wantDiscard != "" {
		if got := canonI(p2); got != wantDiscard {
			return fmt.Errorf("DiscardUnknown result differs (unknown must vanish at every depth, nothing else may change): %s", diffStr(got, wantDiscard))
		}
	}
	// the method table called directly, as a codec that bypasses the proto package
	// would: Depth left unset, the DiscardUnknown flag set
	if meth := t.New().ProtoReflect().ProtoMethods(); meth != nil && meth.Unmarshal != nil && meth.Flags&protoiface.SupportUnmarshalDiscardUnknown != 0 && wantDiscard != "" {
		pm := t.New()
		_, err := meth.Unmarshal(protoiface.UnmarshalInput{Message: pm.ProtoReflect(), Buf: b, Flags: protoiface.UnmarshalDiscardUnknown})
		if err != nil {
			return fmt.Errorf("ProtoMethods.Unmarshal (DiscardUnknown flag, Depth unset) rejected a well-typed stream: %v", err)
		}
		if got := canonI(pm); got != wantDiscard {
			return fmt.Errorf("ProtoMethods.Unmarshal called directly with the DiscardUnknown flag (Depth unset) differs from proto.UnmarshalOptions{DiscardUnknown}: %s", diffStr(got, wantDiscard))
		}
		ctx.Label("direct method call with DiscardUnknown")
	}
	// DiscardUnknown together with a recursion limit that is just sufficient: the
	// request must reach the deepest level the limit still admits. Oracle: dynamicpb
	// under the same options; limits it rejects are C06's business, not asserted here
	for limit := 1; limit <= 6; limit++ {
		o := proto.UnmarshalOptions{DiscardUnknown: true, AllowPartial: true, RecursionLimit: limit}
		dl := t.NewD()
		if o.Unmarshal(b, dl) != nil {
			continue
		}
		wantL := canonD(dl.ProtoReflect())
		pl := t.New()
		if err := o.Unmarshal(b, pl); err != nil {
			return fmt.Errorf("Unmarshal with DiscardUnknown and RecursionLimit=%d rejected a stream the reference accepts under the same options: %v", limit, err)
		}
		if got := canonI(pl); got != wantL {
			return fmt.Errorf("DiscardUnknown with RecursionLimit=%d differs from the reference under the same options: %s", limit, diffStr(got, wantL))
		}
		if meth := t.New().ProtoReflect().ProtoMethods(); meth != nil && meth.Unmarshal != nil && meth.Flags&protoiface.SupportUnmarshalDiscardUnknown != 0 {
			pm := t.New()
			if _, err := meth.Unmarshal(protoiface.UnmarshalInput{Message: pm.ProtoReflect(), Buf: b, Flags: protoiface.UnmarshalDiscardUnknown, Depth: limit}); err != nil {
				return fmt.Errorf("ProtoMethods.Unmarshal (DiscardUnknown flag, Depth=%d) rejected a stream the reference accepts at that limit: %v", limit, err)
			}
			if got := canonI(pm); got != wantL {
				return fmt.Errorf("ProtoMethods.Unmarshal called directly with the DiscardUnknown flag and Depth=%d differs from the reference at that limit: %s", limit, diffStr(got, wantL))
			}
		}
		ctx.Label("DiscardUnknown with a small recursion limit the reference accepts")
		break // the smallest sufficient limit is the interesting one
	}
	// options combined on one call: the stream is decoded a second time INTO the
	// message that already holds it (unknown fields included), with Merge +
	// DiscardUnknown (+ a recursion limit that is sufficient): what the message
	// held stays, unknown fields included; of the new input only known fields
	// arrive. Oracle: the same two calls on dynamicpb.
	{
		comb := proto.UnmarshalOptions{Merge: true, DiscardUnknown: true, AllowPartial: true}
		if digest(c.Bytes, "limit")%2 == 0 {
			comb.RecursionLimit = 200
		}
		dm := t.NewD()
		pm2 := t.New()
		if proto.Unmarshal(b, dm) == nil && comb.Unmarshal(b, dm) == nil {
			if err := proto.Unmarshal(b, pm2); err != nil {
				return fmt.Errorf("Unmarshal rejected a well-typed stream: %v", err)
			}
			if err := comb.Unmarshal(b, pm2); err != nil {
				return fmt.Errorf("Unmarshal with Merge+DiscardUnknown into a populated message rejected a well-typed stream: %v", err)
			}
			if got, wantM := canonI(pm2), canonD(dm.ProtoReflect()); got != wantM {
				return fmt.Errorf("Merge+DiscardUnknown(+RecursionLimit=%d) into a message that holds unknown fields differs from the reference: %s", comb.RecursionLimit, diffStr(got, wantM))
			}
			ctx.Label("merge+discard combination compared")
		}
	}
	// replace-then-restore on the decoded message: the slice GetUnknown handed
	// out must survive a SetUnknown of something else, and storing it back
	// restores the set exactly
	if orig := p.ProtoReflect().GetUnknown(); len(orig) > 0 {
		keep := append([]byte{}, orig...)
		other := protoreflect.RawFields(unhex(c.Bytes2))
		if len(other) == 0 {
			other = protoreflect.RawFields{0xf8, 0x07, 0x01}
		}
		p.ProtoReflect().SetUnknown(other)
		if !bytes.Equal(orig, keep) {
			return fmt.Errorf("SetUnknown wrote into the slice an earlier GetUnknown returned: %s -> %s", hexs(keep), hexs(orig))
		}
		p.ProtoReflect().SetUnknown(orig)
		if got := p.ProtoReflect().GetUnknown(); !bytes.Equal(got, keep) {
			return fmt.Errorf("restoring the unknown set after replacing it gives %s, want %s", hexs(got), hexs(keep))
		}
		if got := canonI(p); got != want {
			return fmt.Errorf("message differs after replacing and restoring its unknown set: %s", diffStr(got, want))
		}
	}
	// SetUnknown / GetUnknown
	u := protoreflect.RawFields(unhex(c.Bytes2))
	p3 := model.BuildP(t, d.ProtoReflect())
	p3.ProtoReflect().SetUnknown(append(protoreflect.RawFields(nil), u...))
	if got := p3.ProtoReflect().GetUnknown(); !bytes.Equal(got, u) {
		return fmt.Errorf("GetUnknown after SetUnknown(%s) returned %s", hexs(u), hexs(got))
	}
	if got := model.ImplOf(p3).GetUnknown(); !bytes.Equal(got, u) {
		return fmt.Errorf("struct unknown bytes after SetUnknown(%s) are %s", hexs(u), hexs(got))
	}
	out3, err := det.Marshal(p3)
	if err != nil {
		return fmt.Errorf("Marshal after SetUnknown failed: %v", err)
	}
	if !bytes.HasSuffix(out3, u) {
		return fmt.Errorf("encoding after SetUnknown does not end with the unknown bytes")
	}
	dk := t.NewD()
	_ = proto.UnmarshalOptions{AllowPartial: true, DiscardUnknown: false}.Unmarshal(b, dk)
	dk.SetUnknown(nil)
	dkb, _ := det.Marshal(dk)
	if !bytes.Equal(out3[:len(out3)-len(u)], dkb) {
		return fmt.Errorf("SetUnknown changed known fields of the encoding")
	}
	if nested > 0 {
		ctx.Nontrivial(c.Type, c.Bytes)
		ctx.Label("unknown below top level")
	} else if len(d.GetUnknown()) > 0 {
		ctx.Label("trivial-ish: unknown at top level only")
	} else {
		ctx.Label("trivial: no unknown record survived")
	}
	_ = protowire.Number(0)
	return nil
}
