package engines

import (
	"bytes"
	"fmt"

	"google.golang.org/protobuf/encoding/protojson"
	"google.golang.org/protobuf/proto"
	"google.golang.org/protobuf/reflect/protoreflect"
	"pgregory.net/rapid"

	"verif/kit/model"
)

func init() {
	register(&Engine{
		ID:   "C07",
		Desc: "codec calls do not alias or disturb caller buffers",
		Rule: "per generated type: a random well-typed stream b / its value V with string and bytes payloads in singular, repeated, oneof and map positions and unknown records at any depth; sub unmarshal: decode b, check b unchanged, snapshot the message, overwrite every byte of b with its complement, snapshot again (also with Merge into a populated message); sub marshal: marshal V (both modes, and MarshalAppend), complement every byte slice reachable from the struct (bytes fields, unknownFields at any depth) and compare the output, then complement the output and compare the struct; sub readonly: deep structural snapshot of the Go struct (nil vs empty, slice pointers/len/cap, pointer identities) around Size, Marshal x2, Equal, Clone-from, Range, Get/Has on every field, WhichOneof, GetUnknown, String, protojson.Marshal. Non-trivial: V holds >= 1 non-empty string/bytes/unknown payload; distinct by digest of (type, sub, bytes).",
		Run:  runC07, Replay: func(ctx *Ctx, c *Case) error { return checkC07(ctx, c) },
		Assumptions: []string{"state/sizeCache bookkeeping of protobuf-go is excluded from the structural snapshot"},
	})
}

func runC07(ctx *Ctx) {
	n := ctx.N(3000, 30000)
	for _, t := range ctx.types() {
		t := t
		ctx.CheckRapid(string(t.Name), n, func(rt *rapid.T) *Case {
			cfg := ctx.streamCfg(rapid.IntRange(0, 1).Draw(rt, "unknown") == 0, false)
			switch rapid.IntRange(0, 5).Draw(rt, "bias") {
			case 0:
				cfg.MapBurst = 8 // duplicate keys within one map
			case 1:
				cfg.ListBurst = 12
			}
			b := cfg.GenStream(rt, t.Desc, 0)
			if b == nil {
				b = []byte{}
			}
			if _, err := decodeD(t, b); err != nil {
				return nil
			}
			ctx.MergeLabels(cfg.Labels)
			c := &Case{Type: string(t.Name), Bytes: hexs(b), Args: map[string]string{}}
			c.Sub = rapid.SampledFrom([]string{"unmarshal", "marshal", "readonly", "roinput"}).Draw(rt, "sub")
			if c.Sub == "roinput" && rapid.Bool().Draw(rt, "hostile") {
				// also an encoding the decoder may reject half-way: the input is the
				// caller's memory whatever the verdict
				c.Args["hostile"] = hexs(mutate(rt, ctx, t, b, map[string]int{}))
			}
			c.Args["mode"] = rapid.SampledFrom([]string{"default", "deterministic"}).Draw(rt, "mode")
			if c.Sub == "unmarshal" && rapid.IntRange(0, 2).Draw(rt, "merge") == 0 {
				b2, d2 := ctx.genTypeStream(rt, t, true, false)
				if d2 != nil {
					c.Bytes2 = hexs(b2)
				}
			}
			return c
		}, func(c *Case) error { return checkC07(ctx, c) })
	}
}

func complement(b []byte) {
	for i := range b {
		b[i] = ^b[i]
	}
}

func checkC07(ctx *Ctx, c *Case) error {
	t, err := mustType(c.Type)
	if err != nil {
		return err
	}
	src := unhex(c.Bytes)
	d, err := decodeD(t, src)
	if err != nil {
		return nil
	}
	switch c.Sub {
	case "roinput":
		// the input lives in memory mapped read-only while Unmarshal runs: a store
		// into it faults even if the decoder would have undone it before returning
		// (such a store is visible to whoever reads the buffer at the same time)
		inputs := []struct {
			what string
			b    []byte
		}{{"a valid encoding", src}}
		if h := c.arg("hostile"); h != "" {
			inputs = append(inputs, struct {
				what string
				b    []byte
			}{"a mutated encoding", unhex(h)})
		}
		variants := []struct {
			name string
			opts proto.UnmarshalOptions
		}{{"default", proto.UnmarshalOptions{}}, {"Merge into a populated message", proto.UnmarshalOptions{Merge: true}}, {"DiscardUnknown", proto.UnmarshalOptions{DiscardUnknown: true}}}
		for _, in := range inputs {
			for _, v := range variants {
				p := t.New()
				if v.opts.Merge {
					p = model.BuildP(t, d.ProtoReflect())
				}
				var uerr error
				fault, other, err := withReadOnly(in.b, func(ro []byte) { uerr = v.opts.Unmarshal(ro, p) })
				if err != nil {
					return err
				}
				if fault != "" {
					return fmt.Errorf("Unmarshal (%s) of %s held in read-only memory faulted - it writes to its input: %s; input %s", v.name, in.what, fault, trunc(hexs(in.b), 200))
				}
				if other != "" && in.what == "a valid encoding" {
					return fmt.Errorf("Unmarshal (%s) of a valid encoding panicked: %s", v.name, other)
				}
				_ = uerr
			}
		}
		ctx.Label("roinput: decoded from read-only memory")
		if c.arg("hostile") != "" {
			ctx.Label("roinput: mutated encoding too")
		}
		ctx.Nontrivial(c.Type, c.Bytes, c.arg("hostile"), "roinput")
		return nil
	case "unmarshal":
		b := make([]byte, len(src)) // own allocation, exact capacity
		copy(b, src)
		p := t.New()
		opts := proto.UnmarshalOptions{}
		if c.Bytes2 != "" {
			// merge into a populated message
			if d0, err := decodeD(t, unhex(c.Bytes2)); err == nil {
				p = model.BuildP(t, d0.ProtoReflect())
				opts.Merge = true
			}
		}
		// every option that changes how the input is consumed
		switch digest(c.Bytes, "uopts") % 4 {
		case 1:
			opts.DiscardUnknown = true
			ctx.Label("unmarshal options: DiscardUnknown")
		case 2:
			opts.AllowPartial = true
			opts.RecursionLimit = 500
			ctx.Label("unmarshal options: AllowPartial+RecursionLimit")
		case 3:
			opts.DiscardUnknown = true
			opts.AllowPartial = true
			ctx.Label("unmarshal options: DiscardUnknown+AllowPartial")
		}
		if err := opts.Unmarshal(b, p); err != nil {
			return nil // C03's business
		}
		if !bytes.Equal(b, src) {
			return fmt.Errorf("Unmarshal modified its input: %s -> %s", trunc(hexs(src), 200), trunc(hexs(b), 200))
		}
		before := canonI(p)
		beforeSnap := model.Snapshot(p)
		complement(b)
		if after := canonI(p); after != before {
			return fmt.Errorf("message changed after overwriting the input buffer (aliasing): %s", diffStr(after, before))
		}
		if after := model.Snapshot(p); after != beforeSnap {
			return fmt.Errorf("struct changed after overwriting the input buffer (aliasing): %s", diffStr(after, beforeSnap))
		}
		// the other direction: writing through the message must not reach the input
		for _, s := range model.ByteSlices(p) {
			complement(s)
		}
		complement(b)
		if !bytes.Equal(b, src) {
			return fmt.Errorf("writing into the message's byte slices changed the input buffer (aliasing)")
		}
	case "marshal":
		p := model.BuildP(t, d.ProtoReflect())
		opts := proto.MarshalOptions{Deterministic: c.arg("mode") == "deterministic"}
		out, err := opts.Marshal(p)
		if err != nil {
			return fmt.Errorf("Marshal failed: %v", err)
		}
		prefix := []byte{0xde, 0xad, 0xbe, 0xef}
		app, err := opts.MarshalAppend(append(make([]byte, 0, 4+len(out)/2), prefix...), p)
		if err != nil {
			return fmt.Errorf("MarshalAppend failed: %v", err)
		}
		outCopy := append([]byte{}, out...)
		appCopy := append([]byte{}, app...)
		before := model.Snapshot(p)
		slices := model.ByteSlices(p)
		for _, s := range slices {
			complement(s)
		}
		if !bytes.Equal(out, outCopy) {
			return fmt.Errorf("Marshal output changed after writing into the message's byte slices (aliasing)")
		}
		if !bytes.Equal(app, appCopy) {
			return fmt.Errorf("MarshalAppend output changed after writing into the message's byte slices (aliasing)")
		}
		for _, s := range slices {
			complement(s)
		}
		complement(out)
		complement(app)
		if after := model.Snapshot(p); after != before {
			return fmt.Errorf("message changed after overwriting Marshal's output (aliasing): %s", diffStr(after, before))
		}
	case "readonly":
		// a oneof field holding a typed-nil wrapper pointer is read as "not set";
		// sizing and reading such a message must leave the struct alone (a panic in
		// that hand-made state is only counted: no statement covers it)
		if q := model.BuildP(t, d.ProtoReflect()); digest(c.Bytes, "typednil")%3 == 0 && model.SetTypedNilWrappers(q) > 0 {
			qb := model.Snapshot(q)
			qm := q.ProtoReflect()
			for _, st := range []struct {
				name string
				f    func()
			}{
				{"proto.Size", func() { _ = proto.Size(q) }},
				{"Has / WhichOneof / Range", func() {
					for i := 0; i < qm.Descriptor().Oneofs().Len(); i++ {
						_ = qm.WhichOneof(qm.Descriptor().Oneofs().Get(i))
					}
					for i := 0; i < qm.Descriptor().Fields().Len(); i++ {
						_ = qm.Has(qm.Descriptor().Fields().Get(i))
					}
					qm.Range(func(protoreflect.FieldDescriptor, protoreflect.Value) bool { return true })
				}},
			} {
				if perr := safely(func() error { st.f(); return nil }); perr != nil {
					ctx.Label("observed, not asserted: " + st.name + " panics on a typed-nil oneof wrapper")
					continue
				}
				if after := model.Snapshot(q); after != qb {
					return fmt.Errorf("read-only call %s changed the Go struct of a message whose oneof field holds a typed-nil wrapper: %s", st.name, diffStr(after, qb))
				}
			}
			ctx.Label("typed-nil oneof wrappers")
		}
		// views of lists and maps kept across a Clear of their field: reading through
		// them afterwards is still only reading (what they show is unspecified)
		if r := model.BuildP(t, d.ProtoReflect()); digest(c.Bytes, "keptviews")%3 == 0 {
			rm := r.ProtoReflect()
			type kept struct {
				fd protoreflect.FieldDescriptor
				v  protoreflect.Value
			}
			var views []kept
			rm.Range(func(fd protoreflect.FieldDescriptor, v protoreflect.Value) bool {
				if fd.IsList() || fd.IsMap() {
					views = append(views, kept{fd, v})
				}
				return true
			})
			for _, kv := range views {
				rm.Clear(kv.fd)
			}
			if len(views) > 0 {
				rb := model.Snapshot(r)
				for _, kv := range views {
					kv := kv
					if perr := safely(func() error {
						if kv.fd.IsMap() {
							mp := kv.v.Map()
							k := kv.fd.MapKey().Default().MapKey()
							_ = mp.Len()
							_ = mp.Has(k)
							_ = mp.Get(k)
							mp.Range(func(protoreflect.MapKey, protoreflect.Value) bool { return true })
						} else {
							l := kv.v.List()
							if l.Len() > 0 {
								_ = l.Get(0)
							}
						}
						return nil
					}); perr != nil {
						ctx.Label("observed, not asserted: reading a view kept across Clear panics")
						continue
					}
					if after := model.Snapshot(r); after != rb {
						return fmt.Errorf("reading through a %s view of %s that was obtained before the field was cleared changed the message's Go struct: %s", map[bool]string{true: "map", false: "list"}[kv.fd.IsMap()], kv.fd.Name(), diffStr(after, rb))
					}
				}
				ctx.Label("views kept across Clear read")
			}
		}
		p := model.BuildP(t, d.ProtoReflect())
		other := model.BuildP(t, d.ProtoReflect())
		before := model.Snapshot(p)
		m := p.ProtoReflect()
		step := func(name string, f func()) error {
			f()
			if after := model.Snapshot(p); after != before {
				return fmt.Errorf("read-only call %s changed the message's Go struct: %s", name, diffStr(after, before))
			}
			return nil
		}
		steps := []struct {
			name string
			f    func()
		}{
			{"proto.Size", func() { _ = proto.Size(p) }},
			{"proto.Marshal", func() { _, _ = proto.Marshal(p) }},
			{"deterministic Marshal", func() { _, _ = det.Marshal(p) }},
			{"proto.Equal", func() { _ = proto.Equal(p, other); _ = proto.Equal(other, p) }},
			{"proto.Clone", func() { _ = proto.Clone(p) }},
			{"proto.Merge (as source)", func() { dst := t.New(); proto.Merge(dst, p) }},
			{"Range", func() {
				m.Range(func(fd protoreflect.FieldDescriptor, v protoreflect.Value) bool { readValue(fd, v); return true })
			}},
			{"Has/Get on every field", func() {
				fds := m.Descriptor().Fields()
				for i := 0; i < fds.Len(); i++ {
					_ = m.Has(fds.Get(i))
					readValue(fds.Get(i), m.Get(fds.Get(i)))
				}
			}},
			{"WhichOneof", func() {
				os := m.Descriptor().Oneofs()
				for i := 0; i < os.Len(); i++ {
					_ = m.WhichOneof(os.Get(i))
				}
			}},
			{"GetUnknown", func() { _ = m.GetUnknown() }},
			{"deep canonical walk", func() { _ = canonP(p) }},
			{"String()", func() {
				if s, ok := p.(fmt.Stringer); ok {
					_ = s.String()
				}
			}},
			{"protojson.Marshal", func() { _, _ = protojson.Marshal(p) }},
		}
		for _, s := range steps {
			if err := step(s.name, s.f); err != nil {
				return err
			}
		}
	default:
		return fmt.Errorf("HARNESS: unknown sub %q", c.Sub)
	}
	if model.HasPayload(d.ProtoReflect()) {
		ctx.Nontrivial(c.Type, c.Sub, c.Bytes, c.Bytes2)
	} else {
		ctx.Label("trivial: no string/bytes/unknown payload")
	}
	ctx.Label("sub=" + c.Sub)
	return nil
}

// readValue touches a value returned by Get/Range the way a reader would.
func readValue(fd protoreflect.FieldDescriptor, v protoreflect.Value) {
	switch {
	case fd.IsList():
		l := v.List()
		_ = l.IsValid()
		for i := 0; i < l.Len(); i++ {
			_ = l.Get(i)
		}
	case fd.IsMap():
		mp := v.Map()
		_ = mp.IsValid()
		_ = mp.Len()
		mp.Range(func(k protoreflect.MapKey, mv protoreflect.Value) bool { _ = mp.Has(k); _ = mp.Get(k); return true })
	case fd.Message() != nil:
		_ = v.Message().IsValid()
	}
}
