package engines

import (
	"fmt"
	"sort"
	"strings"

	"google.golang.org/protobuf/proto"
	"google.golang.org/protobuf/reflect/protoreflect"
	"google.golang.org/protobuf/reflect/protoregistry"
	"google.golang.org/protobuf/types/dynamicpb"
	"pgregory.net/rapid"

	"verif/kit/model"
)

func init() {
	register(&Engine{
		ID:   "C08",
		Desc: "reflection API behaves like the reference for every operation history",
		Rule: "model-based lock-step testing: every operation of a history is applied to three messages of the same descriptor: P (generated fast reflection), D (dynamicpb) and I (protoimpl reflection over a second Go struct of the same type). Arm random (every generated type): 15-60 step histories drawn by rapid over the alphabet {Has, Get, Set (scalar / fresh message / list and map built from NewField), Clear, Mutable, NewField, WhichOneof, Range, GetUnknown, SetUnknown, IsValid; List Len/Get/Set/Append/AppendMutable/Truncate/NewElement/IsValid; Map Len/Has/Get/Set/Clear/Mutable/Range/NewValue/IsValid} applied to the root and to a pool of handles returned by earlier operations, plus contract-mandated panics (Mutable on a scalar, Set with a read-only empty composite, foreign field descriptor, store through an empty read-only list/map). Arm exhaustive (small all-shapes message): every sequence of canned mutations up to length 3 (quick) / 4 (thorough). Oracle after every step: returned value, validity, panic/no-panic and whole-message state (read through generated reflection AND from the Go struct by protoimpl) must equal the references whenever D and I agree; explicit invariants on P: Range visits exactly the fields with Has()==true once each, WhichOneof is the unique member with Has()==true, a handle from Mutable writes through. Handles whose parent slot was replaced/cleared are invalidated (protoreflect leaves stale views unspecified). Non-trivial: history with >= 1 mutation followed by >= 1 later step; distinct by digest of (type, ops).",
		Run:  runC08, Replay: func(ctx *Ctx, c *Case) error { return checkC08(ctx, c) },
		Assumptions: []string{"only behaviour on which dynamicpb and protoimpl agree is asserted; disagreements end the history and are counted", "stale handles are invalidated conservatively"},
	})
}

const (
	sP = 0
	sD = 1
	sI = 2
)

var sideName = [3]string{"generated", "dynamicpb", "protoimpl"}

type handle struct {
	kind    byte // 'm' message, 'l' list, 'x' map
	m       [3]protoreflect.Message
	l       [3]protoreflect.List
	x       [3]protoreflect.Map
	fd      protoreflect.FieldDescriptor // list/map: their field
	md      protoreflect.MessageDescriptor
	valid   bool
	mutable bool
	parent  int
	viaNum  protoreflect.FieldNumber // message parent: field number
	viaKey  string                   // map parent: canonical key
	viaIdx  int                      // list parent: index
	// detached values obtained from NewField
	detachedOf int
	detachedFd protoreflect.FieldDescriptor
	vals       [3]protoreflect.Value
}

type machine struct {
	shared   [3]protoreflect.Value // one message value stored into several slots of the root
	sharedMD protoreflect.MessageDescriptor
	ctx      *Ctx
	t        *model.Type
	h        []*handle
	root     [3]proto.Message
	diverged string
	mutated  bool
	nontriv  bool
}

func newMachine(ctx *Ctx, t *model.Type) *machine {
	mc := &machine{ctx: ctx, t: t}
	p, q := t.New(), t.New()
	d := t.NewD()
	mc.root = [3]proto.Message{p, d, q}
	mc.h = append(mc.h, &handle{kind: 'm', m: [3]protoreflect.Message{p.ProtoReflect(), d.ProtoReflect(), model.ImplOf(q)}, md: t.Desc, valid: true, mutable: true, parent: -1})
	return mc
}

// fdFor returns the side's own field descriptor object (all three share the
// descriptor, so it is the same object; kept for clarity).
func fdOf(md protoreflect.MessageDescriptor, num int) protoreflect.FieldDescriptor {
	return md.Fields().ByNumber(protoreflect.FieldNumber(num))
}

type outcome struct {
	res string
	pan string
}

// tri applies f on the three sides under recover.
func tri(f func(side int) string) (out [3]outcome) {
	for s := 0; s < 3; s++ {
		func() {
			defer func() {
				if r := recover(); r != nil {
					out[s].pan = fmt.Sprint(r)
					if out[s].pan == "" {
						out[s].pan = "panic"
					}
				}
			}()
			out[s].res = f(s)
		}()
	}
	return
}

// judge applies the voting rule to one operation's outcomes.
func (mc *machine) judge(what string, out [3]outcome) error {
	dp, ip, pp := out[sD].pan != "", out[sI].pan != "", out[sP].pan != ""
	if dp != ip {
		mc.diverged = fmt.Sprintf("references disagree on panic for %s (dynamicpb panic=%v, protoimpl panic=%v)", what, dp, ip)
		return nil
	}
	if pp != dp {
		if pp {
			return fmt.Errorf("%s: generated reflection panics (%s) where both references do not", what, trunc(out[sP].pan, 200))
		}
		// The references reject this operation by a contract panic: the
		// history is outside the domain on which behaviour is specified. The
		// generated code tolerating it is only counted; the state comparison
		// that follows still requires that nothing was corrupted.
		mc.ctx.Label("observed, not asserted: generated reflection tolerates an operation both references reject by panicking (" + strings.Fields(what)[0] + ")")
		return nil
	}
	if dp {
		return nil
	}
	if out[sD].res != out[sI].res {
		mc.diverged = fmt.Sprintf("references disagree on the result of %s: %s vs %s", what, trunc(out[sD].res, 100), trunc(out[sI].res, 100))
		return nil
	}
	if out[sP].res != out[sD].res {
		return fmt.Errorf("%s: generated reflection returns %s, both references return %s", what, trunc(out[sP].res, 300), trunc(out[sD].res, 300))
	}
	return nil
}

func (mc *machine) invalidateDerived(parent int, match func(h *handle) bool) {
	for i, h := range mc.h {
		if h.valid && h.parent == parent && match(h) {
			h.valid = false
			mc.invalidateDerived(i, func(*handle) bool { return true })
		}
	}
}

func (mc *machine) invalidateField(hi int, fd protoreflect.FieldDescriptor) {
	nums := map[protoreflect.FieldNumber]bool{fd.Number(): true}
	if od := fd.ContainingOneof(); od != nil {
		for i := 0; i < od.Fields().Len(); i++ {
			nums[od.Fields().Get(i).Number()] = true
		}
	}
	mc.invalidateDerived(hi, func(h *handle) bool { return nums[h.viaNum] })
}

// register adds a handle for a composite value returned on all three sides.
func (mc *machine) register(kind byte, parent int, fd protoreflect.FieldDescriptor, vals [3]protoreflect.Value, mutable bool, viaNum protoreflect.FieldNumber, viaKey string, viaIdx int) int {
	h := &handle{kind: kind, fd: fd, valid: true, mutable: mutable, parent: parent, viaNum: viaNum, viaKey: viaKey, viaIdx: viaIdx}
	for s := 0; s < 3; s++ {
		switch kind {
		case 'm':
			m := vals[s].Message()
			if s == sI {
				m = model.Impl(m)
			}
			h.m[s] = m
			h.md = m.Descriptor()
		case 'l':
			h.l[s] = vals[s].List()
		case 'x':
			h.x[s] = vals[s].Map()
		}
	}
	mc.h = append(mc.h, h)
	return len(mc.h) - 1
}

// newMessageValue builds, per side, a fresh message of fd.Message() holding
// the value encoded in b.
func newMessageValue(md protoreflect.MessageDescriptor, b []byte) (vals [3]protoreflect.Value, err error) {
	d := dynamicpb.NewMessage(md)
	if err := (proto.UnmarshalOptions{AllowPartial: true}).Unmarshal(b, d); err != nil {
		return vals, err
	}
	vals[sD] = protoreflect.ValueOfMessage(d)
	for _, s := range []int{sP, sI} {
		if t := model.TypeByName(string(md.FullName())); t != nil {
			vals[s] = protoreflect.ValueOfMessage(model.BuildP(t, d).ProtoReflect())
			continue
		}
		mt, e := protoregistry.GlobalTypes.FindMessageByName(md.FullName())
		if e != nil {
			return vals, e
		}
		m := mt.New()
		if e := (proto.UnmarshalOptions{AllowPartial: true}).Unmarshal(b, m.Interface()); e != nil {
			return vals, e
		}
		vals[s] = protoreflect.ValueOfMessage(m)
	}
	return vals, nil
}

func (mc *machine) stateCheck(step int, op Op) error {
	var st [4]string
	names := [4]string{"P via generated reflection", "P's Go struct via protoimpl", "dynamicpb", "protoimpl over a second struct"}
	var perr error
	func() {
		defer func() {
			if r := recover(); r != nil {
				perr = fmt.Errorf("reading the message through generated reflection panicked after step %d (%s): %v", step, opString(op), r)
			}
		}()
		st[0] = canonP(mc.root[sP])
	}()
	if perr != nil {
		return perr
	}
	st[1] = canonI(mc.root[sP])
	st[2] = canonD(mc.root[sD].ProtoReflect())
	st[3] = canonI(mc.root[sI])
	if st[2] != st[3] {
		mc.diverged = fmt.Sprintf("reference states disagree after %s", opString(op))
		return nil
	}
	for i := 0; i < 2; i++ {
		if st[i] != st[2] {
			return fmt.Errorf("after step %d (%s) the state of %s differs from both references: %s", step, opString(op), names[i], diffStr(st[i], st[2]))
		}
	}
	return mc.invariants(step, op)
}

// invariants asserts the statement's explicit clauses directly on P.
func (mc *machine) invariants(step int, op Op) error {
	for hi, h := range mc.h {
		if !h.valid || h.kind != 'm' {
			continue
		}
		m := h.m[sP]
		if !m.IsValid() {
			continue
		}
		var err error
		func() {
			defer func() {
				if r := recover(); r != nil {
					err = fmt.Errorf("invariant walk on handle %d panicked after step %d (%s): %v", hi, step, opString(op), r)
				}
			}()
			seen := map[protoreflect.FieldNumber]int{}
			m.Range(func(fd protoreflect.FieldDescriptor, v protoreflect.Value) bool {
				seen[fd.Number()]++
				return true
			})
			fds := m.Descriptor().Fields()
			for i := 0; i < fds.Len(); i++ {
				fd := fds.Get(i)
				has := m.Has(fd)
				if has && seen[fd.Number()] != 1 {
					err = fmt.Errorf("after step %d (%s): Range visited populated field %s %d times", step, opString(op), fd.Name(), seen[fd.Number()])
					return
				}
				if !has && seen[fd.Number()] != 0 {
					err = fmt.Errorf("after step %d (%s): Range visited field %s although Has is false", step, opString(op), fd.Name())
					return
				}
				if !has && fd.IsList() {
					if l := m.Get(fd).List(); l.IsValid() || l.Len() != 0 {
						err = fmt.Errorf("after step %d (%s): Get of the unpopulated list %s returns a valid (writable) list", step, opString(op), fd.Name())
						return
					}
				}
				if !has && fd.IsMap() {
					if mp := m.Get(fd).Map(); mp.IsValid() || mp.Len() != 0 {
						err = fmt.Errorf("after step %d (%s): Get of the unpopulated map %s returns a valid (writable) map", step, opString(op), fd.Name())
						return
					}
				}
			}
			ods := m.Descriptor().Oneofs()
			for i := 0; i < ods.Len(); i++ {
				od := ods.Get(i)
				var set []protoreflect.FieldDescriptor
				for j := 0; j < od.Fields().Len(); j++ {
					if m.Has(od.Fields().Get(j)) {
						set = append(set, od.Fields().Get(j))
					}
				}
				if len(set) > 1 {
					err = fmt.Errorf("after step %d (%s): oneof %s has %d members populated", step, opString(op), od.Name(), len(set))
					return
				}
				w := m.WhichOneof(od)
				if (w == nil) != (len(set) == 0) || (w != nil && w.Number() != set[0].Number()) {
					err = fmt.Errorf("after step %d (%s): WhichOneof(%s) disagrees with Has", step, opString(op), od.Name())
					return
				}
			}
		}()
		if err != nil {
			return err
		}
	}
	return nil
}

func opString(o Op) string {
	return fmt.Sprintf("%s h=%d f=%d i=%d k=%s v=%s %s", o.Op, o.H, o.F, o.I, trunc(o.K, 24), trunc(o.V, 24), o.Note)
}

func keyOf(fd protoreflect.FieldDescriptor, hexPayload string) protoreflect.MapKey {
	return model.DecodeScalar(fd.MapKey(), unhex(hexPayload)).MapKey()
}

func valStr(fd protoreflect.FieldDescriptor, v protoreflect.Value) string {
	if !v.IsValid() {
		return "<invalid>"
	}
	if fd.Message() != nil && !fd.IsList() && !fd.IsMap() {
		return "msg valid=" + fmt.Sprint(v.Message().IsValid())
	}
	return model.CanonValue(fd, v)
}

func elemStr(fd protoreflect.FieldDescriptor, v protoreflect.Value, view model.Viewer) string {
	if !v.IsValid() {
		return "<invalid>"
	}
	if fd.Message() != nil {
		return fmt.Sprintf("msg valid=%v %s", v.Message().IsValid(), model.Canon(v.Message(), view))
	}
	return model.CanonValue(fd, v)
}

func viewOf(side int) model.Viewer {
	if side == sI {
		return model.Impl
	}
	return model.Same
}

// apply executes one op on the three sides and judges it.
func (mc *machine) apply(step int, op Op) error {
	if op.H < 0 || op.H >= len(mc.h) || !mc.h[op.H].valid {
		return nil // stale handle in a shrunk history: skip
	}
	h := mc.h[op.H]
	what := opString(op)
	if op.Op == "attach" {
		if h.detachedFd == nil || h.detachedOf >= len(mc.h) || !mc.h[h.detachedOf].valid || !mc.h[h.detachedOf].mutable {
			return nil
		}
		owner := mc.h[h.detachedOf]
		fd := h.detachedFd
		mc.invalidateField(h.detachedOf, fd)
		// after Set it is unspecified whether the stored value aliases the
		// detached one: the detached handle and everything derived from it go
		h.valid = false
		mc.invalidateDerived(op.H, func(*handle) bool { return true })
		mc.mutated = true
		vals := h.vals
		return mc.judge(what, tri(func(s int) string { owner.m[s].Set(fd, vals[s]); return "" }))
	}
	switch h.kind {
	case 'm':
		var fd protoreflect.FieldDescriptor
		if op.F != 0 {
			fd = fdOf(h.md, op.F)
			if fd == nil && op.Op != "foreign" {
				return nil
			}
		}
		switch op.Op {
		case "has":
			return mc.judge(what, tri(func(s int) string { return fmt.Sprint(h.m[s].Has(fd)) }))
		case "get":
			var vals [3]protoreflect.Value
			out := tri(func(s int) string {
				v := h.m[s].Get(fd)
				vals[s] = v
				switch {
				case fd.IsList():
					return fmt.Sprintf("list len=%d valid=%v", v.List().Len(), v.List().IsValid())
				case fd.IsMap():
					return fmt.Sprintf("map len=%d valid=%v", v.Map().Len(), v.Map().IsValid())
				}
				return valStr(fd, v)
			})
			if err := mc.judge(what, out); err != nil || mc.diverged != "" {
				return err
			}
			if out[sP].pan == "" {
				switch {
				// Get on a populated composite returns the value itself, so the
				// handle is as writable as its parent (the voting rule still guards)
				case fd.IsList() && vals[sD].List().IsValid():
					mc.register('l', op.H, fd, vals, h.mutable, fd.Number(), "", 0)
				case fd.IsMap() && vals[sD].Map().IsValid():
					mc.register('x', op.H, fd, vals, h.mutable, fd.Number(), "", 0)
				case fd.Message() != nil && !fd.IsList() && !fd.IsMap() && vals[sD].Message().IsValid():
					mc.register('m', op.H, fd, vals, h.mutable, fd.Number(), "", 0)
				}
			}
			return nil
		case "set":
			if fd.Message() != nil || fd.IsList() || fd.IsMap() {
				return nil
			}
			mc.invalidateField(op.H, fd)
			mc.mutated = true
			// every side gets its own copy of the value: a bytes value shared by the
			// three messages would hide writes one of them makes to it in place
			return mc.judge(what, tri(func(s int) string { h.m[s].Set(fd, model.DecodeScalar(fd, unhex(op.V))); return "" }))
		case "setmsg":
			if fd.Message() == nil || fd.IsList() || fd.IsMap() {
				return nil
			}
			vals, err := newMessageValue(fd.Message(), unhex(op.V))
			if err != nil {
				return nil
			}
			mc.invalidateField(op.H, fd)
			mc.mutated = true
			return mc.judge(what, tri(func(s int) string { h.m[s].Set(fd, vals[s]); return "" }))
		case "shareinto":
			// the same message value (one per history and type) is stored into a
			// slot of the root: singular field, list element or map value. Using it
			// twice makes two slots alias one message in all three implementations.
			if op.H != 0 {
				return nil
			}
			var smd protoreflect.MessageDescriptor
			switch {
			case fd.IsMap():
				smd = fd.MapValue().Message()
			default:
				smd = fd.Message()
			}
			if smd == nil {
				return nil
			}
			if mc.sharedMD == nil || mc.sharedMD.FullName() != smd.FullName() {
				vals, err := newMessageValue(smd, unhex(op.V))
				if err != nil {
					return nil
				}
				mc.shared, mc.sharedMD = vals, smd
			}
			mc.mutated = true
			switch {
			case fd.IsList():
				return mc.judge(what, tri(func(s int) string { h.m[s].Mutable(fd).List().Append(mc.shared[s]); return "" }))
			case fd.IsMap():
				k := keyOf(fd, op.K)
				for hi, hh := range mc.h {
					if hh.valid && hh.kind == 'x' && hh.parent == 0 && hh.viaNum == fd.Number() {
						mc.invalidateDerived(hi, func(x *handle) bool { return x.viaKey == op.K })
					}
				}
				return mc.judge(what, tri(func(s int) string { h.m[s].Mutable(fd).Map().Set(k, mc.shared[s]); return "" }))
			default:
				mc.invalidateField(op.H, fd)
				return mc.judge(what, tri(func(s int) string { h.m[s].Set(fd, mc.shared[s]); return "" }))
			}
		case "setlist":
			// build a new list from NewField, append scalars, Set it
			if !fd.IsList() || fd.Message() != nil {
				return nil
			}
			var elems []protoreflect.Value
			for _, part := range strings.Split(op.V, ",") {
				if part != "" {
					elems = append(elems, model.DecodeScalar(fd, unhex(part)))
				}
			}
			mc.invalidateField(op.H, fd)
			mc.mutated = true
			return mc.judge(what, tri(func(s int) string {
				nv := h.m[s].NewField(fd)
				for _, e := range elems {
					nv.List().Append(e)
				}
				h.m[s].Set(fd, nv)
				return ""
			}))
		case "setmap":
			if !fd.IsMap() || fd.MapValue().Message() != nil {
				return nil
			}
			parts := strings.Split(op.V, ",")
			mc.invalidateField(op.H, fd)
			mc.mutated = true
			return mc.judge(what, tri(func(s int) string {
				nv := h.m[s].NewField(fd)
				for i := 0; i+1 < len(parts); i += 2 {
					nv.Map().Set(model.DecodeScalar(fd.MapKey(), unhex(parts[i])).MapKey(), model.DecodeScalar(fd.MapValue(), unhex(parts[i+1])))
				}
				h.m[s].Set(fd, nv)
				return ""
			}))
		case "setempty":
			// contract: Set with an empty read-only composite panics
			if !(fd.IsList() || fd.IsMap() || fd.Message() != nil) {
				return nil
			}
			return mc.judge(what, tri(func(s int) string {
				fresh := h.m[s].Type().New()
				h.m[s].Set(fd, fresh.Get(fd))
				return ""
			}))
		case "clear":
			mc.invalidateField(op.H, fd)
			mc.mutated = true
			return mc.judge(what, tri(func(s int) string { h.m[s].Clear(fd); return "" }))
		case "mutable":
			var vals [3]protoreflect.Value
			if fd.IsList() || fd.IsMap() || fd.Message() != nil {
				// replaces the other members of a oneof
				if od := fd.ContainingOneof(); od != nil {
					for i := 0; i < od.Fields().Len(); i++ {
						if o := od.Fields().Get(i); o.Number() != fd.Number() {
							mc.invalidateDerived(op.H, func(hh *handle) bool { return hh.viaNum == o.Number() })
						}
					}
				}
				mc.mutated = true
			}
			out := tri(func(s int) string {
				v := h.m[s].Mutable(fd)
				vals[s] = v
				switch {
				case fd.IsList():
					return fmt.Sprintf("list len=%d valid=%v", v.List().Len(), v.List().IsValid())
				case fd.IsMap():
					return fmt.Sprintf("map len=%d valid=%v", v.Map().Len(), v.Map().IsValid())
				}
				return "msg valid=" + fmt.Sprint(v.Message().IsValid())
			})
			if err := mc.judge(what, out); err != nil || mc.diverged != "" {
				return err
			}
			if out[sP].pan == "" {
				k := byte('m')
				if fd.IsList() {
					k = 'l'
				} else if fd.IsMap() {
					k = 'x'
				}
				mc.register(k, op.H, fd, vals, true, fd.Number(), "", 0)
			}
			return nil
		case "newdetached":
			// NewField value kept as a detached handle: filled through its own
			// methods and stored later with "attach"
			if !(fd.IsList() || fd.IsMap() || fd.Message() != nil) {
				return nil
			}
			var vals [3]protoreflect.Value
			out := tri(func(s int) string {
				vals[s] = h.m[s].NewField(fd)
				return ""
			})
			if err := mc.judge(what, out); err != nil || mc.diverged != "" {
				return err
			}
			if out[sP].pan == "" {
				k := byte('m')
				if fd.IsList() {
					k = 'l'
				} else if fd.IsMap() {
					k = 'x'
				}
				id := mc.register(k, -2, fd, vals, true, 0, "", -1)
				mc.h[id].detachedOf = op.H
				mc.h[id].detachedFd = fd
				mc.h[id].vals = vals
			}
			return nil
		case "newfield":
			// every NewField call hands out a new, empty, mutable value that is
			// independent of the message and of every other NewField result: the
			// first result is written to before the second is looked at
			return mc.judge(what, tri(func(s int) string {
				first := h.m[s].NewField(fd)
				switch {
				case fd.IsList() && fd.Message() != nil:
					first.List().AppendMutable()
				case fd.IsList():
					first.List().Append(fd.Default())
				case fd.IsMap() && fd.MapValue().Message() != nil:
					first.Map().Mutable(fd.MapKey().Default().MapKey())
				case fd.IsMap():
					first.Map().Set(fd.MapKey().Default().MapKey(), fd.MapValue().Default())
				case fd.Message() != nil:
					first.Message().SetUnknown(protoreflect.RawFields{0xf8, 0x7f, 0x2a})
				}
				v := h.m[s].NewField(fd)
				switch {
				case fd.IsList():
					return fmt.Sprintf("list len=%d valid=%v", v.List().Len(), v.List().IsValid())
				case fd.IsMap():
					return fmt.Sprintf("map len=%d valid=%v", v.Map().Len(), v.Map().IsValid())
				case fd.Message() != nil:
					return fmt.Sprintf("msg valid=%v %s", v.Message().IsValid(), model.Canon(v.Message(), viewOf(s)))
				}
				return valStr(fd, v)
			}))
		case "which":
			ods := h.md.Oneofs()
			if op.I < 0 || op.I >= ods.Len() {
				return nil
			}
			od := ods.Get(op.I)
			return mc.judge(what, tri(func(s int) string {
				w := h.m[s].WhichOneof(od)
				if w == nil {
					return "none"
				}
				return fmt.Sprint(w.Number())
			}))
		case "range":
			return mc.judge(what, tri(func(s int) string {
				var parts []string
				h.m[s].Range(func(fd protoreflect.FieldDescriptor, v protoreflect.Value) bool {
					switch {
					case fd.IsList():
						parts = append(parts, fmt.Sprintf("%d:list%d", fd.Number(), v.List().Len()))
					case fd.IsMap():
						parts = append(parts, fmt.Sprintf("%d:map%d", fd.Number(), v.Map().Len()))
					case fd.Message() != nil:
						parts = append(parts, fmt.Sprintf("%d:%s", fd.Number(), model.Canon(v.Message(), viewOf(s))))
					default:
						parts = append(parts, fmt.Sprintf("%d:%s", fd.Number(), model.CanonValue(fd, v)))
					}
					return true
				})
				sort.Strings(parts)
				return strings.Join(parts, " ")
			}))
		case "rangemut":
			// inside Range the current field may be mutated: append to / truncate
			// the list view the callback received
			if fd == nil || !fd.IsList() || fd.Message() != nil {
				return nil
			}
			mc.invalidateField(op.H, fd)
			mc.mutated = true
			v := model.DecodeScalar(fd, unhex(op.V))
			return mc.judge(what, tri(func(s int) string {
				seen := 0
				h.m[s].Range(func(rfd protoreflect.FieldDescriptor, rv protoreflect.Value) bool {
					if rfd.Number() != fd.Number() {
						return true
					}
					seen++
					if op.I == 0 {
						rv.List().Append(v)
					} else {
						rv.List().Truncate(rv.List().Len() - 1)
					}
					return false
				})
				return fmt.Sprint(seen)
			}))
		case "rangeread":
			// the callback reads the OTHER fields of the message it ranges over
			return mc.judge(what, tri(func(s int) string {
				var parts []string
				fds := h.m[s].Descriptor().Fields()
				h.m[s].Range(func(rfd protoreflect.FieldDescriptor, rv protoreflect.Value) bool {
					n := 0
					for i := 0; i < fds.Len(); i++ {
						if h.m[s].Has(fds.Get(i)) {
							n++
						}
						_ = h.m[s].Get(fds.Get(i))
					}
					for i := 0; i < h.m[s].Descriptor().Oneofs().Len(); i++ {
						_ = h.m[s].WhichOneof(h.m[s].Descriptor().Oneofs().Get(i))
					}
					parts = append(parts, fmt.Sprintf("%d:%d", rfd.Number(), n))
					return true
				})
				sort.Strings(parts)
				return strings.Join(parts, " ")
			}))
		case "rangestop":
			// Range must stop when f returns false
			return mc.judge(what, tri(func(s int) string {
				n := 0
				h.m[s].Range(func(protoreflect.FieldDescriptor, protoreflect.Value) bool { n++; return false })
				return fmt.Sprint(n)
			}))
		case "getunknown":
			return mc.judge(what, tri(func(s int) string { return hexs(h.m[s].GetUnknown()) }))
		case "setunknown":
			mc.mutated = true
			u := unhex(op.V)
			return mc.judge(what, tri(func(s int) string {
				h.m[s].SetUnknown(append(protoreflect.RawFields(nil), u...))
				return ""
			}))
		case "swapunknown":
			// take the unknown set, replace it, store the taken slice back
			mc.mutated = true
			u := unhex(op.V)
			return mc.judge(what, tri(func(s int) string {
				saved := h.m[s].GetUnknown()
				before := hexs(saved)
				h.m[s].SetUnknown(append(protoreflect.RawFields(nil), u...))
				mid := hexs(h.m[s].GetUnknown())
				h.m[s].SetUnknown(saved)
				return before + ">" + mid + ">" + hexs(h.m[s].GetUnknown())
			}))
		case "isvalid":
			return mc.judge(what, tri(func(s int) string { return fmt.Sprint(h.m[s].IsValid()) }))
		case "mutscalar":
			// contract: Mutable on a scalar panics
			if fd.IsList() || fd.IsMap() || fd.Message() != nil {
				return nil
			}
			return mc.judge(what, tri(func(s int) string { h.m[s].Mutable(fd); return "" }))
		case "foreign":
			// contract: a field descriptor of another message panics
			other := model.Types()[op.I%len(model.Types())]
			if other.Name == h.md.FullName() || other.Desc.Fields().Len() == 0 {
				return nil
			}
			ofd := other.Desc.Fields().Get(0)
			if h.md.Fields().ByName(ofd.Name()) != nil || h.md.Fields().ByNumber(ofd.Number()) != nil {
				return nil // same name or number: the references may accept it
			}
			return mc.judge(what, tri(func(s int) string {
				switch op.F % 3 {
				case 0:
					h.m[s].Has(ofd)
				case 1:
					h.m[s].Get(ofd)
				default:
					h.m[s].Clear(ofd)
				}
				return ""
			}))
		}
	case 'l':
		fd := h.fd
		switch op.Op {
		case "len":
			return mc.judge(what, tri(func(s int) string { return fmt.Sprint(h.l[s].Len(), h.l[s].IsValid()) }))
		case "lget":
			n := h.l[sD].Len()
			if op.I < 0 || op.I >= n {
				return nil
			}
			var vals [3]protoreflect.Value
			out := tri(func(s int) string { vals[s] = h.l[s].Get(op.I); return elemStr(fd, vals[s], viewOf(s)) })
			if err := mc.judge(what, out); err != nil || mc.diverged != "" {
				return err
			}
			if fd.Message() != nil && out[sP].pan == "" && vals[sD].Message().IsValid() {
				mc.register('m', op.H, nil, vals, h.mutable, 0, "", op.I)
			}
			return nil
		case "lset":
			if !h.mutable || op.I < 0 || op.I >= h.l[sD].Len() {
				return nil
			}
			mc.invalidateDerived(op.H, func(hh *handle) bool { return hh.viaIdx == op.I })
			mc.mutated = true
			if fd.Message() != nil {
				vals, err := newMessageValue(fd.Message(), unhex(op.V))
				if err != nil {
					return nil
				}
				return mc.judge(what, tri(func(s int) string { h.l[s].Set(op.I, vals[s]); return "" }))
			}
			return mc.judge(what, tri(func(s int) string { h.l[s].Set(op.I, model.DecodeScalar(fd, unhex(op.V))); return "" }))
		case "lcopy":
			// append / store an element read from the same list: for bytes the two
			// slots may then share memory, which later in-place writes must not show
			if !h.mutable || fd.Message() != nil {
				return nil
			}
			mc.mutated = true
			return mc.judge(what, tri(func(s int) string {
				n := h.l[s].Len()
				if n == 0 {
					return "empty"
				}
				v := h.l[s].Get(op.I % n)
				if op.V == "set" {
					h.l[s].Set((op.I/7)%n, v)
				} else {
					h.l[s].Append(v)
				}
				return ""
			}))
		case "append":
			if !h.mutable {
				return nil
			}
			mc.mutated = true
			if fd.Message() != nil {
				vals, err := newMessageValue(fd.Message(), unhex(op.V))
				if err != nil {
					return nil
				}
				return mc.judge(what, tri(func(s int) string { h.l[s].Append(vals[s]); return "" }))
			}
			return mc.judge(what, tri(func(s int) string { h.l[s].Append(model.DecodeScalar(fd, unhex(op.V))); return "" }))
		case "appendmut":
			if !h.mutable {
				return nil
			}
			mc.mutated = true
			var vals [3]protoreflect.Value
			idx := h.l[sD].Len()
			out := tri(func(s int) string {
				vals[s] = h.l[s].AppendMutable()
				return "msg valid=" + fmt.Sprint(vals[s].Message().IsValid())
			})
			if err := mc.judge(what, out); err != nil || mc.diverged != "" {
				return err
			}
			if out[sP].pan == "" && fd.Message() != nil {
				mc.register('m', op.H, nil, vals, true, 0, "", idx)
			}
			return nil
		case "truncate":
			if !h.mutable || op.I < 0 || op.I > h.l[sD].Len() {
				return nil
			}
			mc.invalidateDerived(op.H, func(hh *handle) bool { return hh.viaIdx >= op.I })
			mc.mutated = true
			return mc.judge(what, tri(func(s int) string { h.l[s].Truncate(op.I); return "" }))
		case "newelem":
			return mc.judge(what, tri(func(s int) string { return elemStr(fd, h.l[s].NewElement(), viewOf(s)) }))
		case "appendempty":
			// contract: appending through an empty read-only list panics
			return mc.judge(what, tri(func(s int) string {
				fresh := mc.h[0].m[s].Type().New()
				l := fresh.Get(fdOf(mc.h[0].md, op.F)).List()
				l.Append(model.DecodeScalar(fdOf(mc.h[0].md, op.F), unhex(op.V)))
				return ""
			}))
		}
	case 'x':
		fd := h.fd
		switch op.Op {
		case "len":
			return mc.judge(what, tri(func(s int) string { return fmt.Sprint(h.x[s].Len(), h.x[s].IsValid()) }))
		case "mhas":
			k := keyOf(fd, op.K)
			return mc.judge(what, tri(func(s int) string { return fmt.Sprint(h.x[s].Has(k)) }))
		case "mget":
			k := keyOf(fd, op.K)
			var vals [3]protoreflect.Value
			out := tri(func(s int) string { vals[s] = h.x[s].Get(k); return elemStr(fd.MapValue(), vals[s], viewOf(s)) })
			if err := mc.judge(what, out); err != nil || mc.diverged != "" {
				return err
			}
			if fd.MapValue().Message() != nil && out[sP].pan == "" && vals[sD].IsValid() && vals[sD].Message().IsValid() {
				mc.register('m', op.H, nil, vals, h.mutable, 0, op.K, -1)
			}
			return nil
		case "mset":
			if !h.mutable {
				return nil
			}
			k := keyOf(fd, op.K)
			mc.invalidateDerived(op.H, func(hh *handle) bool { return hh.viaKey == op.K })
			mc.mutated = true
			if fd.MapValue().Message() != nil {
				vals, err := newMessageValue(fd.MapValue().Message(), unhex(op.V))
				if err != nil {
					return nil
				}
				return mc.judge(what, tri(func(s int) string { h.x[s].Set(k, vals[s]); return "" }))
			}
			return mc.judge(what, tri(func(s int) string { h.x[s].Set(k, model.DecodeScalar(fd.MapValue(), unhex(op.V))); return "" }))
		case "mclear":
			if !h.mutable {
				return nil
			}
			k := keyOf(fd, op.K)
			mc.invalidateDerived(op.H, func(hh *handle) bool { return hh.viaKey == op.K })
			mc.mutated = true
			return mc.judge(what, tri(func(s int) string { h.x[s].Clear(k); return "" }))
		case "mmutable":
			if !h.mutable || fd.MapValue().Message() == nil {
				return nil
			}
			k := keyOf(fd, op.K)
			mc.mutated = true
			var vals [3]protoreflect.Value
			out := tri(func(s int) string {
				vals[s] = h.x[s].Mutable(k)
				return "msg valid=" + fmt.Sprint(vals[s].Message().IsValid())
			})
			if err := mc.judge(what, out); err != nil || mc.diverged != "" {
				return err
			}
			if out[sP].pan == "" {
				mc.register('m', op.H, nil, vals, true, 0, op.K, -1)
			}
			return nil
		case "mrange":
			return mc.judge(what, tri(func(s int) string {
				var parts []string
				h.x[s].Range(func(k protoreflect.MapKey, v protoreflect.Value) bool {
					parts = append(parts, model.CanonValue(fd.MapKey(), k.Value())+"="+elemStr(fd.MapValue(), v, viewOf(s)))
					return true
				})
				sort.Strings(parts)
				return strings.Join(parts, " ")
			}))
		case "mrangestop":
			// Range stops as soon as f returns false: exactly min(I+1, Len) calls
			return mc.judge(what, tri(func(s int) string {
				n := 0
				h.x[s].Range(func(protoreflect.MapKey, protoreflect.Value) bool { n++; return n <= op.I })
				return fmt.Sprint(n)
			}))
		case "mrangeclear":
			// mutation of the CURRENT key during Range is allowed: clear the keys a
			// key-derived predicate selects; every entry is still visited exactly once
			if !h.mutable {
				return nil
			}
			mc.invalidateDerived(op.H, func(*handle) bool { return true })
			mc.mutated = true
			return mc.judge(what, tri(func(s int) string {
				var parts []string
				h.x[s].Range(func(k protoreflect.MapKey, v protoreflect.Value) bool {
					ks := model.CanonValue(fd.MapKey(), k.Value())
					parts = append(parts, ks)
					if digest(ks, fmt.Sprint(op.I))%2 == 0 {
						h.x[s].Clear(k)
					}
					return true
				})
				sort.Strings(parts)
				return strings.Join(parts, " ") + fmt.Sprint(" left=", h.x[s].Len())
			}))
		case "newvalue":
			return mc.judge(what, tri(func(s int) string { return elemStr(fd.MapValue(), h.x[s].NewValue(), viewOf(s)) }))
		}
	}
	return nil
}

// ---- generation ---------------------------------------------------------

func (mc *machine) validHandles() []int {
	var out []int
	for i, h := range mc.h {
		if h.valid {
			out = append(out, i)
		}
	}
	return out
}

func drawMsgBytes(rt *rapid.T, ctx *Ctx, md protoreflect.MessageDescriptor) string {
	cfg := ctx.streamCfg(rapid.IntRange(0, 4).Draw(rt, "unk") == 0, true)
	cfg.MaxRecords = 4
	cfg.MaxDepth = 1
	b := cfg.GenStream(rt, md, 0)
	return hexs(b)
}

// drawKey prefers keys already in the map so that Get/Clear/Set hit entries.
func (mc *machine) drawKey(rt *rapid.T, h *handle) string {
	var existing []string
	func() {
		defer func() { recover() }()
		h.x[sD].Range(func(k protoreflect.MapKey, _ protoreflect.Value) bool {
			existing = append(existing, hexs(keyPayload(h.fd.MapKey(), k)))
			return len(existing) < 8
		})
	}()
	sort.Strings(existing)
	if len(existing) > 0 && rapid.IntRange(0, 2).Draw(rt, "existing") != 0 {
		return rapid.SampledFrom(existing).Draw(rt, "key")
	}
	return hexs(model.DrawScalarPayload(rt, h.fd.MapKey()))
}

// keyPayload re-encodes a map key as a canonical scalar payload.
func keyPayload(kfd protoreflect.FieldDescriptor, k protoreflect.MapKey) []byte {
	return model.SpecScalar(kfd, k.Value())
}

func (mc *machine) drawOp(rt *rapid.T) Op {
	hs := mc.validHandles()
	hi := hs[0]
	if len(hs) > 1 && rapid.IntRange(0, 2).Draw(rt, "usehandle") != 0 {
		hi = rapid.SampledFrom(hs).Draw(rt, "handle")
	}
	h := mc.h[hi]
	op := Op{H: hi}
	if h.detachedFd != nil && rapid.IntRange(0, 2).Draw(rt, "attach") == 0 {
		op.Op = "attach"
		return op
	}
	switch h.kind {
	case 'm':
		fds := h.md.Fields()
		if fds.Len() == 0 || !h.m[sD].IsValid() {
			op.Op = rapid.SampledFrom([]string{"range", "getunknown", "isvalid"}).Draw(rt, "op")
			return op
		}
		fd := fds.Get(rapid.IntRange(0, fds.Len()-1).Draw(rt, "field"))
		op.F = int(fd.Number())
		var choices []string
		composite := fd.IsList() || fd.IsMap() || fd.Message() != nil
		choices = append(choices, "has", "get", "get", "newfield", "range", "rangeread", "rangestop", "getunknown", "isvalid")
		if composite && h.mutable {
			choices = append(choices, "newdetached")
			if hi == 0 && ((fd.IsMap() && fd.MapValue().Message() != nil) || (!fd.IsMap() && fd.Message() != nil)) {
				choices = append(choices, "shareinto", "shareinto")
			}
		}
		if h.md.Oneofs().Len() > 0 {
			choices = append(choices, "which", "which")
		}
		contract := h.mutable && rapid.IntRange(0, 14).Draw(rt, "contract") == 0
		if contract {
			// contract-mandated panics: rare, they tend to end a history
			switch {
			case fd.IsList() || fd.IsMap():
				choices = []string{"setempty", "foreign"}
			case composite:
				// Set with an empty read-only *message*: dynamicpb panics, protoimpl
				// does not - the references disagree, nothing could be asserted
				choices = []string{"foreign"}
			default:
				choices = []string{"mutscalar", "foreign"}
			}
		} else if h.mutable {
			choices = append(choices, "clear", "clear", "setunknown", "swapunknown")
			switch {
			case fd.IsList():
				choices = append(choices, "mutable", "mutable", "mutable")
				if fd.Message() == nil {
					choices = append(choices, "rangemut")
				}
				if fd.Message() == nil {
					choices = append(choices, "setlist")
				}
			case fd.IsMap():
				choices = append(choices, "mutable", "mutable", "mutable")
				if fd.MapValue().Message() == nil {
					choices = append(choices, "setmap")
				}
			case fd.Message() != nil:
				choices = append(choices, "mutable", "mutable", "setmsg", "setmsg")
			default:
				choices = append(choices, "set", "set", "set", "set")
			}
		}
		op.Op = rapid.SampledFrom(choices).Draw(rt, "op")
		switch op.Op {
		case "set":
			op.V = hexs(model.DrawScalarPayload(rt, fd))
		case "rangemut":
			op.V = hexs(model.DrawScalarPayload(rt, fd))
			op.I = rapid.IntRange(0, 1).Draw(rt, "appendOrTruncate")
		case "shareinto":
			smd := fd.Message()
			if fd.IsMap() {
				smd = fd.MapValue().Message()
				op.K = hexs(model.DrawScalarPayload(rt, fd.MapKey()))
			}
			op.V = drawMsgBytes(rt, mc.ctx, smd)
		case "setmsg":
			op.V = drawMsgBytes(rt, mc.ctx, fd.Message())
		case "setlist":
			n := rapid.IntRange(0, 3).Draw(rt, "n")
			var parts []string
			for i := 0; i < n; i++ {
				parts = append(parts, hexs(model.DrawScalarPayload(rt, fd)))
			}
			op.V = strings.Join(parts, ",")
		case "setmap":
			n := rapid.IntRange(0, 3).Draw(rt, "n")
			var parts []string
			for i := 0; i < n; i++ {
				parts = append(parts, hexs(model.DrawScalarPayload(rt, fd.MapKey())), hexs(model.DrawScalarPayload(rt, fd.MapValue())))
			}
			op.V = strings.Join(parts, ",")
		case "which":
			op.I = rapid.IntRange(0, h.md.Oneofs().Len()-1).Draw(rt, "oneof")
		case "setunknown", "swapunknown":
			cfg := mc.ctx.streamCfg(true, false)
			var u []byte
			for i, k := 0, rapid.IntRange(0, 2).Draw(rt, "nunk"); i < k; i++ {
				u = cfg.UnknownRecord(rt, u, h.md)
			}
			op.V = hexs(u)
		case "foreign":
			op.I = rapid.IntRange(0, 1000).Draw(rt, "othertype")
		}
	case 'l':
		fd := h.fd
		n := 0
		func() { defer func() { recover() }(); n = h.l[sD].Len() }()
		choices := []string{"len", "newelem"}
		if n > 0 {
			choices = append(choices, "lget", "lget")
		}
		if h.mutable {
			choices = append(choices, "append", "append", "append", "truncate")
			if n > 0 {
				choices = append(choices, "lset", "lset")
				if fd.Message() == nil {
					choices = append(choices, "lcopy")
					if fd.Kind() == protoreflect.BytesKind {
						choices = append(choices, "lcopy", "lcopy")
					}
				}
			}
			if fd.Message() != nil {
				choices = append(choices, "appendmut", "appendmut")
			}
		}
		op.Op = rapid.SampledFrom(choices).Draw(rt, "op")
		switch op.Op {
		case "lcopy":
			op.I = rapid.IntRange(0, 1000).Draw(rt, "from")
			op.V = rapid.SampledFrom([]string{"append", "set"}).Draw(rt, "how")
		case "lget", "lset":
			op.I = rapid.IntRange(0, n-1).Draw(rt, "idx")
		case "truncate":
			op.I = rapid.IntRange(0, n).Draw(rt, "n")
		}
		if op.Op == "lset" || op.Op == "append" {
			if fd.Message() != nil {
				op.V = drawMsgBytes(rt, mc.ctx, fd.Message())
			} else {
				op.V = hexs(model.DrawScalarPayload(rt, fd))
			}
		}
	case 'x':
		fd := h.fd
		choices := []string{"len", "mhas", "mget", "mget", "mrange", "mrangestop", "newvalue"}
		if h.mutable {
			choices = append(choices, "mset", "mset", "mset", "mclear", "mclear", "mrangeclear")
			if fd.MapValue().Message() != nil {
				choices = append(choices, "mmutable", "mmutable")
			}
		}
		op.Op = rapid.SampledFrom(choices).Draw(rt, "op")
		switch op.Op {
		case "mrangestop", "mrangeclear":
			op.I = rapid.IntRange(0, 3).Draw(rt, "n")
		case "mhas", "mget", "mset", "mclear", "mmutable":
			op.K = mc.drawKey(rt, h)
		}
		if op.Op == "mset" {
			if fd.MapValue().Message() != nil {
				op.V = drawMsgBytes(rt, mc.ctx, fd.MapValue().Message())
			} else {
				op.V = hexs(model.DrawScalarPayload(rt, fd.MapValue()))
			}
		}
	}
	return op
}

func runC08(ctx *Ctx) {
	n := ctx.N(700, 8000)
	for _, t := range ctx.types() {
		t := t
		if t.Desc.Fields().Len() == 0 {
			continue
		}
		ctx.CheckRapid(string(t.Name), n, func(rt *rapid.T) *Case {
			mc := newMachine(ctx, t)
			steps := rapid.IntRange(15, 60).Draw(rt, "steps")
			c := &Case{Sub: "random", Type: string(t.Name)}
			// optionally start from a populated message: one setup op per side via Set of the root is
			// not available, so the history itself populates the message
			for i := 0; i < steps; i++ {
				op := mc.drawOp(rt)
				c.Ops = append(c.Ops, op)
				if err := safely(func() error { return mc.step(i, op) }); err != nil || mc.diverged != "" {
					break // the check half re-runs the history and reports
				}
			}
			return c
		}, func(c *Case) error { return checkC08(ctx, c) })
	}
	runExhaustive(ctx)
	runC08Lend(ctx)
	runC08Copy(ctx)
	runC08LongList(ctx)
}

func (mc *machine) step(i int, op Op) error {
	mutBefore := mc.mutated
	if err := mc.apply(i, op); err != nil {
		return err
	}
	if mc.diverged != "" {
		return nil
	}
	if mutBefore {
		mc.nontriv = true
	}
	return mc.stateCheck(i, op)
}

func checkC08(ctx *Ctx, c *Case) error {
	if c.Sub == "lend" {
		return checkC08Lend(ctx, c)
	}
	if c.Sub == "copydesc" {
		return checkC08Copy(ctx, c)
	}
	if c.Sub == "longlist" {
		return checkC08LongList(ctx, c)
	}
	t, err := mustType(c.Type)
	if err != nil {
		return err
	}
	mc := newMachine(ctx, t)
	for i, op := range c.Ops {
		if err := mc.step(i, op); err != nil {
			return err
		}
		if mc.diverged != "" {
			ctx.Label("history ended: references disagree (not asserted)")
			ctx.Note("C08 divergence on %s: %s", c.Type, mc.diverged)
			break
		}
		ctx.Label("op:" + op.Op)
	}
	if mc.nontriv {
		var sb strings.Builder
		for _, op := range c.Ops {
			sb.WriteString(opString(op))
			sb.WriteString(";")
		}
		ctx.Nontrivial(c.Type, c.Sub, sb.String())
	} else {
		ctx.Label("trivial: no mutation followed by a later step")
	}
	ctx.LabelN("steps", len(c.Ops))
	return nil
}

// ---- exhaustive small scope -------------------------------------------

// cannedAlphabet returns short op lists (each one "letter") for the
// all-shapes message verif.kinds.Child: every mutation kind with two canned
// values. Observations are implicit: whole state, Range/Has/WhichOneof
// invariants and getters are compared after every step.
func cannedAlphabet() [][]Op {
	s := func(h string) string { return h }
	str := func(v string) string { return hexs(append([]byte{byte(len(v))}, v...)) }
	i32a, i32b := s("07"), s("ffffffffffffffffff01") // 7, -1
	var a [][]Op
	// field numbers of Child: s=1 i=2 r=3 m=4 c=5 b=6 os=7 oc=8 d=9
	a = append(a,
		[]Op{{Op: "set", F: 1, V: str("a")}}, []Op{{Op: "set", F: 1, V: str("")}},
		[]Op{{Op: "set", F: 2, V: i32a}}, []Op{{Op: "set", F: 2, V: "00"}},
		[]Op{{Op: "set", F: 6, V: str("b")}}, []Op{{Op: "set", F: 6, V: str("")}},
		[]Op{{Op: "set", F: 7, V: str("o")}}, []Op{{Op: "set", F: 7, V: str("")}},
		[]Op{{Op: "set", F: 9, V: "0000000000000080"}}, []Op{{Op: "set", F: 9, V: "0000000000000000"}}, // -0.0, +0.0
	)
	for _, f := range []int{1, 2, 3, 4, 5, 6, 7, 8, 9} {
		a = append(a, []Op{{Op: "clear", F: f}})
	}
	a = append(a,
		[]Op{{Op: "mutable", F: 5}, {Op: "set", H: -1, F: 1, V: str("n")}},          // write through nested message
		[]Op{{Op: "mutable", F: 8}, {Op: "set", H: -1, F: 1, V: str("t")}},          // oneof message member via Mutable
		[]Op{{Op: "mutable", F: 3}, {Op: "append", H: -1, V: i32a}},                 // list append through view
		[]Op{{Op: "mutable", F: 3}, {Op: "truncate", H: -1, I: 0}},                  // truncate to empty
		[]Op{{Op: "mutable", F: 4}, {Op: "mset", H: -1, K: str("k"), V: i32b}},      // map set
		[]Op{{Op: "mutable", F: 4}, {Op: "mset", H: -1, K: str(""), V: "00"}},       // zero key, zero value
		[]Op{{Op: "mutable", F: 4}, {Op: "mclear", H: -1, K: str("k")}},             // map clear key
		[]Op{{Op: "setmsg", F: 5, V: "0a0178"}}, []Op{{Op: "setmsg", F: 5, V: ""}},   // Set message populated / empty
		[]Op{{Op: "setmsg", F: 8, V: "0a0179"}},                                     // oneof member via Set
		[]Op{{Op: "setlist", F: 3, V: i32a + "," + i32b}}, []Op{{Op: "setlist", F: 3, V: ""}},
		[]Op{{Op: "setmap", F: 4, V: str("z") + "," + i32a}},
		[]Op{{Op: "setunknown", V: "f8070a"}}, []Op{{Op: "setunknown", V: ""}},
	)
	return a
}

func runExhaustive(ctx *Ctx) {
	t := model.TypeByName("verif.kinds.Child")
	if t == nil {
		ctx.Note("exhaustive arm skipped: verif.kinds.Child not linked")
		return
	}
	alpha := cannedAlphabet()
	maxLen := 3
	if !ctx.Quick() && !ctx.Smoke {
		maxLen = 4
	}
	if ctx.Smoke {
		maxLen = 2
	}
	total := 0
	var seqs [][]int
	var rec func(prefix []int)
	rec = func(prefix []int) {
		if len(prefix) > 0 {
			seqs = append(seqs, append([]int{}, prefix...))
		}
		if len(prefix) == maxLen {
			return
		}
		for i := range alpha {
			rec(append(prefix, i))
		}
	}
	// shard by first letter
	for first := range alpha {
		if first%ctx.NShards != ctx.Shard {
			continue
		}
		seqs = seqs[:0]
		rec([]int{first})
		for _, sq := range seqs {
			var ops []Op
			mc := newMachine(ctx, t)
			failed := false
			for _, li := range sq {
				for _, op := range alpha[li] {
					if op.H == -1 {
						op.H = len(mc.h) - 1 // the handle registered by the preceding op
					}
					ops = append(ops, op)
					if err := safely(func() error { return mc.step(len(ops)-1, op) }); err != nil {
						ctx.Violation(&Case{Sub: "exhaustive", Type: string(t.Name), Ops: ops}, err.Error())
						ctx.T.Fail()
						failed = true
						break
					}
					if mc.diverged != "" {
						ctx.Label("exhaustive: references disagree (not asserted)")
						break
					}
				}
				if failed || mc.diverged != "" {
					break
				}
			}
			total++
			ctx.Eval(1)
			if len(sq) >= 2 {
				ctx.Nontrivial("exh", fmt.Sprint(sq))
			}
			if failed {
				return
			}
		}
	}
	ctx.Extra("exhaustive_sequences", total)
	ctx.Extra("exhaustive_alphabet", fmt.Sprintf("%d canned mutations", len(alpha)))
	ctx.Extra("exhaustive_max_length", fmt.Sprintf("all sequences of length <= %d", maxLen))
	ctx.SetExhaustive(true)
	ctx.Note("exhaustive arm: all %d^k (k<=%d) sequences of canned mutations on verif.kinds.Child were enumerated across the shards; the random arm is sampled", len(alpha), maxLen)
}
