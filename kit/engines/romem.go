package engines

import (
	"fmt"
	"runtime/debug"
	"syscall"
)

// withReadOnly runs f on a copy of b that lives in a page range mapped
// read-only (right-aligned, so that the slice ends where the mapping ends). A
// store into the input - even one that is undone before the call returns -
// faults; with SetPanicOnFault the fault is an ordinary panic of the calling
// goroutine, which is returned as text. Other panics are returned too, marked
// as such. f must not keep references into the slice.
func withReadOnly(b []byte, f func(ro []byte)) (fault, otherPanic string, err error) {
	page := syscall.Getpagesize()
	n := (len(b)/page + 1) * page
	mem, err := syscall.Mmap(-1, 0, n, syscall.PROT_READ|syscall.PROT_WRITE, syscall.MAP_ANON|syscall.MAP_PRIVATE)
	if err != nil {
		return "", "", fmt.Errorf("HARNESS: mmap: %v", err)
	}
	defer func() {
		_ = syscall.Mprotect(mem, syscall.PROT_READ|syscall.PROT_WRITE)
		_ = syscall.Munmap(mem)
	}()
	ro := mem[n-len(b) : n : n]
	copy(ro, b)
	if err := syscall.Mprotect(mem, syscall.PROT_READ); err != nil {
		return "", "", fmt.Errorf("HARNESS: mprotect: %v", err)
	}
	func() {
		defer debug.SetPanicOnFault(debug.SetPanicOnFault(true))
		defer func() {
			if r := recover(); r != nil {
				if e, ok := r.(interface{ Addr() uintptr }); ok {
					fault = fmt.Sprintf("%v (address %#x, input at %#x..%#x)", r, e.Addr(), uintptrOf(ro), uintptrOf(ro)+uintptr(len(ro)))
				} else {
					otherPanic = fmt.Sprint(r)
				}
			}
		}()
		f(ro)
	}()
	return fault, otherPanic, nil
}

func uintptrOf(b []byte) uintptr {
	if cap(b) == 0 {
		return 0
	}
	return uintptr(unsafePointer(b))
}
