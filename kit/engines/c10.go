package engines

import (
	"bytes"
	"encoding/json"
	"fmt"
	"reflect"
	"sort"
	"strings"

	"google.golang.org/protobuf/encoding/protojson"
	"google.golang.org/protobuf/encoding/prototext"
	"google.golang.org/protobuf/encoding/protowire"
	"google.golang.org/protobuf/proto"
	"google.golang.org/protobuf/reflect/protopath"
	"google.golang.org/protobuf/reflect/protorange"
	"google.golang.org/protobuf/reflect/protoreflect"
	"google.golang.org/protobuf/reflect/protoregistry"
	"google.golang.org/protobuf/types/dynamicpb"
	"google.golang.org/protobuf/types/known/anypb"
	"pgregory.net/rapid"

	"verif/kit/model"
)

func init() {
	register(&Engine{
		ID:   "C10",
		Desc: "library algorithms and JSON/text codecs agree with the reference",
		Rule: "per generated type: values V and W (W is an independent draw, a copy of V, or V plus one extra record: about a third each, so Equal is true about half the time); subs: equal (proto.Equal on generated vs on dynamicpb messages, symmetric, reflexive on clones), clone (deep equality and independence: wiping every field of the clone bottom-up and complementing its byte slices leaves the original's struct snapshot unchanged), merge (== proto.Merge on dynamicpb; source unchanged; destination independent of the source afterwards), reset, checkinit, json (protojson.Marshal in 5 option variants compared after JSON parsing, error/no-error agreement; protojson.Unmarshal of the reference's output into generated and dynamic messages), text (prototext.Marshal compared after parsing back; prototext.Unmarshal of the reference's output, multiline and compact). Non-trivial: V non-empty; distinct by digest of (type, sub, V, W).",
		Run:  runC10, Replay: func(ctx *Ctx, c *Case) error { return checkC10(ctx, c) },
		Assumptions: []string{"protojson/prototext byte output is unstable by design and is compared semantically", "dynamicpb is the reference for every algorithm"},
	})
}

func runC10(ctx *Ctx) {
	n := ctx.N(3000, 30000)
	for _, t := range ctx.types() {
		t := t
		ctx.CheckRapid(string(t.Name), n, func(rt *rapid.T) *Case {
			sub := rapid.SampledFrom([]string{"equal", "equal", "clone", "merge", "merge", "selfmerge", "sharereset", "reset", "checkinit", "json", "json", "text", "text", "cross", "cross", "walk", "jsonany", "hybrid"}).Draw(rt, "sub")
			unknown := rapid.IntRange(0, 2).Draw(rt, "unknown") == 0 && sub != "json" && sub != "text" && sub != "jsonany"
			canonical := sub == "json" || sub == "text" || sub == "jsonany" || rapid.Bool().Draw(rt, "canonical")
			b, d := ctx.genTypeStream(rt, t, unknown, canonical)
			if (sub == "json" || sub == "text" || sub == "cross" || sub == "clone" || sub == "walk") && rapid.IntRange(0, 24).Draw(rt, "bigmap") == 0 {
				// maps of dozens of entries (rare: large)
				cfgb := ctx.streamCfg(false, true)
				cfgb.MapBurst, cfgb.MaxRecords = 100, 3
				if bb := cfgb.GenStream(rt, t.Desc, 0); bb != nil {
					if db, err := decodeD(t, bb); err == nil {
						b, d = bb, db
						ctx.Label("big-map-burst")
					}
				}
			}
			if d == nil && sub == "checkinit" && model.HasRequired(t.Desc) {
				// values with unset required fields are this sub's business
				cfg := ctx.streamCfg(unknown, canonical)
				b = cfg.GenStream(rt, t.Desc, 0)
				if b == nil {
					b = []byte{}
				}
				if _, err := decodePartialD(t, b); err != nil {
					return nil
				}
			} else if d == nil {
				return nil
			}
			c := &Case{Sub: sub, Type: string(t.Name), Bytes: hexs(b), Args: map[string]string{}}
			if sub == "equal" || sub == "merge" || sub == "sharereset" || sub == "cross" {
				switch rapid.IntRange(0, 3).Draw(rt, "wclass") {
				case 3:
					// same key set, ONE map value changed: V is redrawn with bursts of map
					// entries, W is V plus an entry record that re-uses one of V's keys
					c.Bytes2 = c.Bytes
					c.Args["w"] = "copy"
					cfgm := ctx.streamCfg(unknown, true)
					cfgm.MapBurst = 6
					bm := cfgm.GenStream(rt, t.Desc, 0)
					dm, err := decodeD(t, bm)
					if err != nil {
						break
					}
					var cands []protoreflect.FieldDescriptor
					for i := 0; i < t.Desc.Fields().Len(); i++ {
						if fd := t.Desc.Fields().Get(i); fd.IsMap() && fd.MapValue().Message() == nil && dm.Get(fd).Map().Len() >= 2 {
							cands = append(cands, fd)
						}
					}
					if len(cands) == 0 {
						break
					}
					fd := cands[rapid.IntRange(0, len(cands)-1).Draw(rt, "mvfield")]
					var keys [][]byte
					dm.Get(fd).Map().Range(func(k protoreflect.MapKey, _ protoreflect.Value) bool {
						keys = append(keys, model.SpecScalar(fd.MapKey(), k.Value()))
						return true
					})
					sort.Slice(keys, func(i, j int) bool { return bytes.Compare(keys[i], keys[j]) < 0 })
					key := keys[rapid.IntRange(0, len(keys)-1).Draw(rt, "mvkey")]
					entry := append(protowire.AppendTag(nil, 1, model.WireTypeOf(fd.MapKey().Kind())), key...)
					entry = append(protowire.AppendTag(entry, 2, model.WireTypeOf(fd.MapValue().Kind())), model.DrawScalarPayload(rt, fd.MapValue())...)
					w := protowire.AppendBytes(protowire.AppendTag(append([]byte{}, bm...), fd.Number(), protowire.BytesType), entry)
					if _, err := decodeD(t, w); err != nil {
						break
					}
					c.Bytes, c.Bytes2 = hexs(bm), hexs(w)
					c.Args["w"] = "one map value changed"
				case 0:
					c.Bytes2 = c.Bytes
					c.Args["w"] = "copy"
				case 1:
					b2, d2 := ctx.genTypeStream(rt, t, unknown, canonical)
					if d2 == nil {
						return nil
					}
					c.Bytes2 = hexs(b2)
					c.Args["w"] = "independent"
				default:
					cfg := ctx.streamCfg(unknown, true)
					cfg.MaxRecords = 1
					extra := cfg.GenStream(rt, t.Desc, 0)
					w := append(append([]byte{}, b...), extra...)
					if _, err := decodeD(t, w); err != nil {
						return nil
					}
					c.Bytes2 = hexs(w)
					c.Args["w"] = "perturbed"
				}
			}
			c.Args["variant"] = fmt.Sprint(rapid.IntRange(0, 4).Draw(rt, "variant"))
			return c
		}, func(c *Case) error { return checkC10(ctx, c) })
	}
}

// wipe clears every field of m bottom-up through protobuf-go's own reflection.
func wipe(m protoreflect.Message, depth int) {
	if depth > 50 || !m.IsValid() {
		return
	}
	m = model.Impl(m)
	var fds []protoreflect.FieldDescriptor
	m.Range(func(fd protoreflect.FieldDescriptor, v protoreflect.Value) bool {
		switch {
		case fd.IsList() && fd.Message() != nil:
			for i := 0; i < v.List().Len(); i++ {
				wipe(v.List().Get(i).Message(), depth+1)
			}
		case fd.IsMap() && fd.MapValue().Message() != nil:
			v.Map().Range(func(_ protoreflect.MapKey, mv protoreflect.Value) bool { wipe(mv.Message(), depth+1); return true })
		case fd.Message() != nil && !fd.IsList() && !fd.IsMap():
			wipe(v.Message(), depth+1)
		}
		fds = append(fds, fd)
		return true
	})
	for _, fd := range fds {
		switch {
		case fd.IsList():
			m.Mutable(fd).List().Truncate(0)
		case fd.IsMap():
			mp := m.Mutable(fd).Map()
			var keys []protoreflect.MapKey
			mp.Range(func(k protoreflect.MapKey, _ protoreflect.Value) bool { keys = append(keys, k); return true })
			for _, k := range keys {
				mp.Clear(k)
			}
		}
		m.Clear(fd)
	}
	m.SetUnknown(nil)
}

// scribble adds an unknown record to m and to every message reachable from it
// (field-less messages included: unknown fields are the only state they have).
func scribble(m protoreflect.Message, depth int) {
	if depth > 50 || !m.IsValid() {
		return
	}
	m.Range(func(fd protoreflect.FieldDescriptor, v protoreflect.Value) bool {
		switch {
		case fd.IsList() && fd.Message() != nil:
			for i := 0; i < v.List().Len(); i++ {
				scribble(v.List().Get(i).Message(), depth+1)
			}
		case fd.IsMap() && fd.MapValue().Message() != nil:
			v.Map().Range(func(_ protoreflect.MapKey, mv protoreflect.Value) bool { scribble(mv.Message(), depth+1); return true })
		case fd.Message() != nil && !fd.IsList() && !fd.IsMap():
			scribble(v.Message(), depth+1)
		}
		return true
	})
	m.SetUnknown(append(append(protoreflect.RawFields(nil), m.GetUnknown()...), 0xf8, 0x7f, 0x2a)) // field 2047 varint 42
}

// independentParses: two messages parsed from the same text must not share
// anything: disturbing every part of the first leaves the second untouched.
func independentParses(what string, first, second proto.Message) error {
	before := model.Snapshot(second)
	canonBefore := canonI(second)
	if err := safely(func() error { scribble(first.ProtoReflect(), 0); return nil }); err != nil {
		return nil // e.g. a nil element held read-only: nothing to disturb through it
	}
	if after := model.Snapshot(second); after != before {
		return fmt.Errorf("two messages parsed by %s from the same input share state: adding unknown fields to every message of the first changed the second: %s (value before %s, now %s)", what, diffStr(after, before), trunc(canonBefore, 200), trunc(canonI(second), 200))
	}
	for _, s := range model.ByteSlices(first) {
		complement(s)
	}
	wipe(first.ProtoReflect(), 0)
	if after := model.Snapshot(second); after != before {
		return fmt.Errorf("two messages parsed by %s from the same input share state: changing the first changed the second: %s (value before %s, now %s)", what, diffStr(after, before), trunc(canonBefore, 200), trunc(canonI(second), 200))
	}
	return nil
}

// dynResolver resolves every message name to a dynamicpb type over the
// registered descriptor (extensions: none).
type dynResolver struct{}

func (dynResolver) FindMessageByName(n protoreflect.FullName) (protoreflect.MessageType, error) {
	d, err := protoregistry.GlobalFiles.FindDescriptorByName(n)
	if err != nil {
		return nil, err
	}
	md, ok := d.(protoreflect.MessageDescriptor)
	if !ok {
		return nil, protoregistry.NotFound
	}
	return dynamicpb.NewMessageType(md), nil
}

func (r dynResolver) FindMessageByURL(url string) (protoreflect.MessageType, error) {
	if i := strings.LastIndexByte(url, '/'); i >= 0 {
		url = url[i+1:]
	}
	return r.FindMessageByName(protoreflect.FullName(url))
}

func (dynResolver) FindExtensionByName(protoreflect.FullName) (protoreflect.ExtensionType, error) {
	return nil, protoregistry.NotFound
}

func (dynResolver) FindExtensionByNumber(protoreflect.FullName, protoreflect.FieldNumber) (protoreflect.ExtensionType, error) {
	return nil, protoregistry.NotFound
}

// wrongWireRecord encodes one record whose number is a field md declares and
// whose wire type is not the one that field uses (nor its packed alternative).
func wrongWireRecord(md protoreflect.MessageDescriptor, pick uint64) []byte {
	fds := md.Fields()
	if fds.Len() == 0 {
		return nil
	}
	fd := fds.Get(int(pick % uint64(fds.Len())))
	declared := protowire.VarintType
	switch fd.Kind() {
	case protoreflect.Fixed32Kind, protoreflect.Sfixed32Kind, protoreflect.FloatKind:
		declared = protowire.Fixed32Type
	case protoreflect.Fixed64Kind, protoreflect.Sfixed64Kind, protoreflect.DoubleKind:
		declared = protowire.Fixed64Type
	case protoreflect.StringKind, protoreflect.BytesKind, protoreflect.MessageKind:
		declared = protowire.BytesType
	}
	// fixed32 vs fixed64 never collide with the packed alternative (bytes)
	if declared == protowire.Fixed32Type {
		return protowire.AppendFixed64(protowire.AppendTag(nil, fd.Number(), protowire.Fixed64Type), 7)
	}
	return protowire.AppendFixed32(protowire.AppendTag(nil, fd.Number(), protowire.Fixed32Type), 7)
}

func jsonSemantic(b []byte) (interface{}, error) {
	var v interface{}
	err := json.Unmarshal(b, &v)
	return v, err
}

func checkC10(ctx *Ctx, c *Case) error {
	t, err := mustType(c.Type)
	if err != nil {
		return err
	}
	d, err := decodeD(t, unhex(c.Bytes))
	if c.Sub == "checkinit" {
		d, err = decodePartialD(t, unhex(c.Bytes))
	}
	if err != nil {
		return nil
	}
	want := canonD(d.ProtoReflect())
	p := model.BuildP(t, d.ProtoReflect())
	if digest(c.Bytes, "flipbytes")%3 == 0 {
		// the same value with every empty bytes value (oneof member, list element,
		// map value) held the other way, nil <-> []byte{}: no algorithm may notice
		if model.FlipEmptyBytes(p) > 0 {
			ctx.Label("empty bytes held the other way")
		}
	}
	if (c.Sub == "clone" || c.Sub == "merge" || c.Sub == "equal" || c.Sub == "selfmerge") && digest(c.Bytes, "wrongwire")%4 == 0 {
		// an unknown record that uses a DECLARED field number with another wire type:
		// protobuf-go keeps such a record among the unknown fields, so it is an
		// ordinary value for the generic algorithms (it arrives through SetUnknown
		// or a Merge from another implementation), although no decoder of the type
		// would produce it
		// placed in the first populated child message (singular or first list
		// element) when there is one, else at the top level
		target := func(m protoreflect.Message) protoreflect.Message {
			fds := m.Descriptor().Fields()
			for i := 0; i < fds.Len(); i++ {
				fd := fds.Get(i)
				if fd.Message() == nil || fd.IsMap() || !m.Has(fd) {
					continue
				}
				if fd.IsList() {
					if l := m.Get(fd).List(); l.Len() > 0 && l.Get(0).Message().IsValid() {
						return l.Get(0).Message()
					}
					continue
				}
				if c := m.Mutable(fd).Message(); c.IsValid() {
					return c
				}
			}
			return m
		}
		tp, td := target(p.ProtoReflect()), target(d.ProtoReflect())
		if tp.Descriptor().FullName() == td.Descriptor().FullName() {
			if rec := wrongWireRecord(td.Descriptor(), digest(c.Bytes, "whichfield")); rec != nil {
				for _, m := range []protoreflect.Message{tp, td} {
					m.SetUnknown(append(append(protoreflect.RawFields(nil), m.GetUnknown()...), rec...))
				}
				want = canonD(d.ProtoReflect())
				ctx.Label("unknown record with a declared number and another wire type")
			}
		}
	}
	switch c.Sub {
	case "equal":
		dw, err := decodeD(t, unhex(c.Bytes2))
		if err != nil {
			return nil
		}
		pw := model.BuildP(t, dw.ProtoReflect())
		ref := proto.Equal(d, dw)
		if got := proto.Equal(p, pw); got != ref {
			return fmt.Errorf("proto.Equal(V,W) = %v on generated messages, %v on reference messages (W is %s)", got, ref, c.arg("w"))
		}
		if got := proto.Equal(pw, p); got != ref {
			return fmt.Errorf("proto.Equal is not symmetric: Equal(W,V) = %v, reference %v", got, ref)
		}
		if refl, rrefl := proto.Equal(p, proto.Clone(p)), proto.Equal(d, proto.Clone(d)); refl != rrefl {
			return fmt.Errorf("proto.Equal(V, Clone(V)) = %v, reference %v", refl, rrefl)
		}
		ctx.Label(fmt.Sprintf("equal: %v (W %s)", ref, c.arg("w")))
	case "clone":
		before := model.Snapshot(p)
		cl := proto.Clone(p)
		if got := canonI(cl); got != want {
			return fmt.Errorf("proto.Clone differs from the original: %s", diffStr(got, want))
		}
		if reflect.TypeOf(cl) != reflect.TypeOf(p) {
			return fmt.Errorf("proto.Clone returned a %T", cl)
		}
		for _, s := range model.ByteSlices(cl) {
			complement(s)
		}
		_ = safely(func() error { scribble(cl.ProtoReflect(), 0); return nil })
		if after := model.Snapshot(p); after != before {
			return fmt.Errorf("adding unknown fields to every message of the clone changed the original (shallow copy): %s", diffStr(after, before))
		}
		wipe(cl.ProtoReflect(), 0)
		if after := model.Snapshot(p); after != before {
			return fmt.Errorf("mutating the clone changed the original (shallow copy): %s", diffStr(after, before))
		}
	case "merge":
		dw, err := decodeD(t, unhex(c.Bytes2))
		if err != nil {
			return nil
		}
		pw := model.BuildP(t, dw.ProtoReflect())
		wBefore := model.Snapshot(pw)
		proto.Merge(d, dw)
		refCanon := canonD(d.ProtoReflect())
		proto.Merge(p, pw)
		if got := canonI(p); got != refCanon {
			return fmt.Errorf("proto.Merge(V,W) differs from the reference: %s", diffStr(got, refCanon))
		}
		if after := model.Snapshot(pw); after != wBefore {
			return fmt.Errorf("proto.Merge changed its source: %s", diffStr(after, wBefore))
		}
		for _, s := range model.ByteSlices(pw) {
			complement(s)
		}
		_ = safely(func() error { scribble(pw.ProtoReflect(), 0); return nil })
		if got := canonI(p); got != refCanon {
			return fmt.Errorf("destination shares a message with the Merge source (unknown fields added to the source show up): %s", diffStr(got, refCanon))
		}
		wipe(pw.ProtoReflect(), 0)
		if got := canonI(p); got != refCanon {
			return fmt.Errorf("destination shares memory with the Merge source: %s", diffStr(got, refCanon))
		}
	case "cross":
		// generic algorithms across implementations: a generated message on one
		// side, a dynamicpb message of the same descriptor on the other
		dw, err := decodeD(t, unhex(c.Bytes2))
		if err != nil {
			return nil
		}
		pw := model.BuildP(t, dw.ProtoReflect())
		ref := proto.Equal(d, dw)
		for _, pair := range []struct {
			name string
			a, b proto.Message
		}{{"Equal(generated V, dynamic W)", p, dw}, {"Equal(dynamic V, generated W)", d, pw}, {"Equal(dynamic W, generated V)", dw, p}} {
			if got := proto.Equal(pair.a, pair.b); got != ref {
				return fmt.Errorf("proto.%s = %v, on two dynamic messages %v (W is %s)", pair.name, got, ref, c.arg("w"))
			}
		}
		refM := proto.Clone(d)
		proto.Merge(refM, dw)
		wantM := canonD(refM.ProtoReflect())
		m1 := proto.Clone(d) // dynamic destination, generated source
		proto.Merge(m1, pw)
		if got := canonD(m1.ProtoReflect()); got != wantM {
			return fmt.Errorf("proto.Merge(dynamic V, generated W) differs from Merge on two dynamic messages: %s", diffStr(got, wantM))
		}
		m2 := model.BuildP(t, d.ProtoReflect()) // generated destination, dynamic source
		proto.Merge(m2, dw)
		if got := canonI(m2); got != wantM {
			return fmt.Errorf("proto.Merge(generated V, dynamic W) differs from Merge on two dynamic messages: %s", diffStr(got, wantM))
		}
		ctx.Label("cross-implementation equal/merge")
	case "hybrid":
		// a dynamicpb parent whose message-typed children (singular fields, list
		// elements, map values) are GENERATED messages: dynamicpb accepts any
		// protoreflect.Message of the right descriptor, and the generic codec and
		// algorithms then drive the generated children through their reflection
		h := t.NewD()
		hm := h.ProtoReflect()
		nGen := 0
		child := func(fd protoreflect.FieldDescriptor, v protoreflect.Value) protoreflect.Value {
			if ct := model.TypeByName(string(fd.Message().FullName())); ct != nil {
				nGen++
				return protoreflect.ValueOfMessage(model.BuildP(ct, v.Message()).ProtoReflect())
			}
			return protoreflect.ValueOfMessage(proto.Clone(v.Message().Interface()).ProtoReflect())
		}
		d.ProtoReflect().Range(func(fd protoreflect.FieldDescriptor, v protoreflect.Value) bool {
			switch {
			case fd.IsList() && fd.Message() != nil:
				l := hm.Mutable(fd).List()
				for i := 0; i < v.List().Len(); i++ {
					l.Append(child(fd, v.List().Get(i)))
				}
			case fd.IsMap() && fd.MapValue().Message() != nil:
				mp := hm.Mutable(fd).Map()
				v.Map().Range(func(k protoreflect.MapKey, mv protoreflect.Value) bool {
					mp.Set(k, child(fd.MapValue(), mv))
					return true
				})
			case fd.Message() != nil && !fd.IsList() && !fd.IsMap():
				hm.Set(fd, child(fd, v))
			case fd.IsList():
				l := hm.Mutable(fd).List()
				for i := 0; i < v.List().Len(); i++ {
					l.Append(v.List().Get(i))
				}
			case fd.IsMap():
				mp := hm.Mutable(fd).Map()
				v.Map().Range(func(k protoreflect.MapKey, mv protoreflect.Value) bool { mp.Set(k, mv); return true })
			default:
				hm.Set(fd, v)
			}
			return true
		})
		hm.SetUnknown(d.ProtoReflect().GetUnknown())
		if nGen == 0 {
			ctx.Label("trivial: no generated child")
			return nil
		}
		refB, err := det.Marshal(d)
		if err != nil {
			return nil
		}
		gotB, err := det.Marshal(h)
		if err != nil {
			return fmt.Errorf("Marshal of a dynamic message holding generated children failed: %v", err)
		}
		if !bytes.Equal(gotB, refB) {
			return fmt.Errorf("deterministic bytes of a dynamic message holding generated children differ from the all-dynamic message: %s", diffStr(hexs(gotB), hexs(refB)))
		}
		if proto.Size(h) != proto.Size(d) {
			return fmt.Errorf("Size of a dynamic message holding generated children = %d, all-dynamic %d", proto.Size(h), proto.Size(d))
		}
		if !proto.Equal(h, d) || !proto.Equal(d, h) {
			return fmt.Errorf("a dynamic message holding generated children is not proto.Equal to the all-dynamic message of the same value")
		}
		if got := canonD(proto.Clone(h).ProtoReflect()); got != want {
			return fmt.Errorf("Clone of a dynamic message holding generated children differs: %s", diffStr(got, want))
		}
		ctx.Label("hybrid dynamic parent / generated children")
	case "walk":
		// protorange visits the same paths with the same values on both implementations
		walk := func(m proto.Message, view model.Viewer) (string, error) {
			var sb strings.Builder
			n := 0
			err := protorange.Options{Stable: true}.Range(m.ProtoReflect(), func(pv protopath.Values) error {
				n++
				last := pv.Index(-1)
				sb.WriteString(pv.Path.String())
				if last.Step.Kind() == protopath.FieldAccessStep || last.Step.Kind() == protopath.ListIndexStep || last.Step.Kind() == protopath.MapIndexStep {
					var fd protoreflect.FieldDescriptor
					switch last.Step.Kind() {
					case protopath.FieldAccessStep:
						fd = last.Step.FieldDescriptor()
					default:
						fd = pv.Index(-2).Step.FieldDescriptor()
					}
					if fd != nil && fd.Message() == nil && !fd.IsList() && !fd.IsMap() {
						sb.WriteString("=" + model.CanonValue(fd, last.Value))
					} else if fd != nil && fd.Message() == nil && last.Step.Kind() == protopath.ListIndexStep {
						sb.WriteString("=" + model.CanonValue(fd, last.Value))
					} else if fd != nil && fd.IsMap() && last.Step.Kind() == protopath.MapIndexStep && fd.MapValue().Message() == nil {
						sb.WriteString("=" + model.CanonValue(fd.MapValue(), last.Value))
					}
				}
				sb.WriteString(";")
				return nil
			}, nil)
			return fmt.Sprintf("%d:%s", n, sb.String()), err
		}
		wp, e1 := walk(p, model.Same)
		wd, e2 := walk(d, model.Same)
		if e1 != nil || e2 != nil {
			return fmt.Errorf("protorange failed: generated %v, dynamic %v", e1, e2)
		}
		if wp != wd {
			return fmt.Errorf("protorange visits differ between the generated and the dynamic message: %s", diffStr(wp, wd))
		}
		ctx.Label("protorange walk compared")
	case "jsonany":
		// V packed into an Any: protojson and prototext expand it through the type
		// resolver; with the global registry that is the generated type, with
		// dynResolver a dynamicpb type of the same descriptor
		vb, err := det.Marshal(d)
		if err != nil {
			return nil
		}
		a := &anypb.Any{TypeUrl: "type.googleapis.com/" + string(t.Name), Value: vb}
		gotJ, e1 := protojson.MarshalOptions{}.Marshal(a)
		refJ, e2 := protojson.MarshalOptions{Resolver: dynResolver{}}.Marshal(a)
		if (e1 == nil) != (e2 == nil) {
			return fmt.Errorf("protojson.Marshal of an Any holding V: generated type %v, dynamic type %v", e1, e2)
		}
		if e1 == nil {
			g, ge := jsonSemantic(gotJ)
			r, re := jsonSemantic(refJ)
			if ge != nil || re != nil || !reflect.DeepEqual(g, r) {
				return fmt.Errorf("protojson of an Any holding V differs between the generated and the dynamic type:\n generated %s\n reference %s", trunc(string(gotJ), 600), trunc(string(refJ), 600))
			}
			back := &anypb.Any{}
			if err := protojson.Unmarshal(refJ, back); err != nil {
				return fmt.Errorf("protojson.Unmarshal of an Any holding V (resolved to the generated type) failed: %v", err)
			}
			back2 := &anypb.Any{}
			if err := (protojson.UnmarshalOptions{Resolver: dynResolver{}}).Unmarshal(refJ, back2); err != nil {
				return nil // the reference cannot parse its own output: nothing to compare with
			}
			// JSON cannot carry everything (NaN payloads): the yardstick is what the
			// same text gives through the dynamic type
			q, q2 := t.NewD(), t.NewD()
			if err := proto.Unmarshal(back.Value, q); err != nil {
				return fmt.Errorf("an Any parsed from JSON through the generated type holds a value that does not decode: %v", err)
			}
			if err := proto.Unmarshal(back2.Value, q2); err != nil {
				return nil
			}
			if a, b := canonD(q.ProtoReflect()), canonD(q2.ProtoReflect()); a != b {
				return fmt.Errorf("an Any holding V parsed from JSON through the generated type differs from the same text parsed through the dynamic type: %s", diffStr(a, b))
			}
		}
		gotT, e3 := prototext.MarshalOptions{}.Marshal(a)
		refT, e4 := prototext.MarshalOptions{Resolver: dynResolver{}}.Marshal(a)
		if (e3 == nil) != (e4 == nil) {
			return fmt.Errorf("prototext.Marshal of an Any holding V: generated type %v, dynamic type %v", e3, e4)
		}
		if e3 == nil {
			b1, b2 := &anypb.Any{}, &anypb.Any{}
			u1 := prototext.UnmarshalOptions{Resolver: dynResolver{}}.Unmarshal(gotT, b1)
			u2 := prototext.UnmarshalOptions{Resolver: dynResolver{}}.Unmarshal(refT, b2)
			if (u1 == nil) != (u2 == nil) {
				return fmt.Errorf("text of an Any holding V, written through the generated type, parses differently: %v vs %v\n %s", u1, u2, trunc(string(gotT), 400))
			}
			if u1 == nil {
				d1, d2 := t.NewD(), t.NewD()
				if proto.Unmarshal(b1.Value, d1) != nil || proto.Unmarshal(b2.Value, d2) != nil || canonD(d1.ProtoReflect()) != canonD(d2.ProtoReflect()) {
					return fmt.Errorf("text of an Any holding V differs between the generated and the dynamic type: %s", diffStr(canonD(d1.ProtoReflect()), canonD(d2.ProtoReflect())))
				}
			}
		}
		ctx.Label("any expansion compared")
	case "sharereset":
		// b receives a's lists by Set (what generic code such as Merge-like
		// copiers does), then a is reset (proto.Reset, or implicitly by a JSON
		// unmarshal) and refilled with another value: b must not change. Checked
		// on the reference first (if dynamicpb's b changes the case is only counted).
		dw, err := decodeD(t, unhex(c.Bytes2))
		if err != nil {
			return nil
		}
		share := func(a, b protoreflect.Message) int {
			n := 0
			a.Range(func(fd protoreflect.FieldDescriptor, v protoreflect.Value) bool {
				if fd.IsList() {
					b.Set(b.Descriptor().Fields().ByNumber(fd.Number()), v)
					n++
				}
				return true
			})
			return n
		}
		db := t.NewD()
		if share(d.ProtoReflect(), db.ProtoReflect()) == 0 {
			ctx.Label("trivial: no populated list to share")
			return nil
		}
		refB := canonD(db.ProtoReflect())
		proto.Reset(d)
		model.CopyInto(d.ProtoReflect(), dw.ProtoReflect(), model.Same)
		if canonD(db.ProtoReflect()) != refB {
			ctx.Label("reference: sharing a list then reset+refill disturbs the receiver (not asserted)")
			return nil
		}
		pb := t.New()
		share(p.ProtoReflect(), pb.ProtoReflect())
		if got := canonI(pb); got != refB {
			return fmt.Errorf("HARNESS: receiver differs right after sharing: %s", diffStr(got, refB))
		}
		if c.argInt("variant")%2 == 0 {
			proto.Reset(p)
		} else if js, err := protojson.Marshal(dw); err == nil {
			if err := protojson.Unmarshal(js, p); err != nil {
				proto.Reset(p)
			}
		} else {
			proto.Reset(p)
		}
		wipe(p.ProtoReflect(), 0) // whatever the JSON path left
		model.CopyInto(p.ProtoReflect(), dw.ProtoReflect(), model.Same)
		if got := canonI(pb); got != refB {
			return fmt.Errorf("a message that received lists from another message by Set changed when that other message was reset and refilled: %s", diffStr(got, refB))
		}
	case "selfmerge":
		// source and destination are the same message: the reference appends
		// repeated fields and unknown bytes to themselves
		proto.Merge(d, d)
		refCanon := canonD(d.ProtoReflect())
		proto.Merge(p, p)
		if got := canonI(p); got != refCanon {
			return fmt.Errorf("proto.Merge(m, m) differs from the reference: %s", diffStr(got, refCanon))
		}
	case "reset":
		proto.Reset(p)
		if got := canonI(p); got != "{}" {
			return fmt.Errorf("proto.Reset left %s", trunc(got, 300))
		}
		if got := canonP(p); got != "{}" {
			return fmt.Errorf("proto.Reset left (generated reflection) %s", trunc(got, 300))
		}
		if proto.Size(p) != 0 {
			return fmt.Errorf("proto.Reset: Size = %d", proto.Size(p))
		}
	case "checkinit":
		e1, e2 := proto.CheckInitialized(p), proto.CheckInitialized(d)
		if (e1 == nil) != (e2 == nil) {
			return fmt.Errorf("CheckInitialized = %v, reference %v", e1, e2)
		}
		// the codec entry points run the same test unless told AllowPartial
		_, m1 := proto.Marshal(p)
		_, m2 := proto.Marshal(d)
		if (m1 == nil) != (m2 == nil) {
			return fmt.Errorf("proto.Marshal of a value whose initialisation state is %v: generated %v, reference %v", e2, m1, m2)
		}
		u1 := proto.Unmarshal(unhex(c.Bytes), t.New())
		u2 := proto.Unmarshal(unhex(c.Bytes), t.NewD())
		if (u1 == nil) != (u2 == nil) {
			return fmt.Errorf("proto.Unmarshal of an encoding whose value has initialisation state %v: generated %v, reference %v", e2, u1, u2)
		}
		// the same with DiscardUnknown: dropping unknown fields does not excuse a
		// missing required field
		du := proto.UnmarshalOptions{DiscardUnknown: true}
		v1 := du.Unmarshal(unhex(c.Bytes), t.New())
		v2 := du.Unmarshal(unhex(c.Bytes), t.NewD())
		if (v1 == nil) != (v2 == nil) {
			return fmt.Errorf("Unmarshal with DiscardUnknown of an encoding whose value has initialisation state %v: generated %v, reference %v", e2, v1, v2)
		}
		if e2 != nil {
			ctx.Label("checkinit: required field unset somewhere")
		}
	case "json":
		variants := []protojson.MarshalOptions{{}, {UseProtoNames: true}, {UseEnumNumbers: true}, {EmitUnpopulated: true}, {Multiline: true, Indent: "  "}}
		mo := variants[c.argInt("variant")%len(variants)]
		got, e1 := mo.Marshal(p)
		ref, e2 := mo.Marshal(d)
		if (e1 == nil) != (e2 == nil) {
			return fmt.Errorf("protojson.Marshal error disagreement: generated %v, reference %v", e1, e2)
		}
		if e1 != nil {
			ctx.Label("json: both reject")
			break
		}
		g, ge := jsonSemantic(got)
		r, re := jsonSemantic(ref)
		if ge != nil || re != nil || !reflect.DeepEqual(g, r) {
			return fmt.Errorf("protojson output differs semantically:\n generated %s\n reference %s", trunc(string(got), 600), trunc(string(ref), 600))
		}
		// parse the reference's output into both: once into fresh messages, once
		// into messages that already hold content (the codecs reset first)
		p2, d2 := t.New(), t.NewD()
		if c.argInt("variant")%2 == 1 {
			p2 = model.BuildP(t, d.ProtoReflect())
			d2 = t.NewD()
			model.CopyInto(d2.ProtoReflect(), d.ProtoReflect(), model.Same)
		}
		u1 := protojson.Unmarshal(ref, p2)
		u2 := protojson.Unmarshal(ref, d2)
		if (u1 == nil) != (u2 == nil) {
			return fmt.Errorf("protojson.Unmarshal error disagreement: generated %v, reference %v (input %s)", u1, u2, trunc(string(ref), 400))
		}
		if u1 == nil {
			if a, b := canonI(p2), canonD(d2.ProtoReflect()); a != b {
				return fmt.Errorf("protojson.Unmarshal result differs from reference: %s", diffStr(a, b))
			}
			if a, b := canonP(p2), canonD(d2.ProtoReflect()); a != b {
				return fmt.Errorf("protojson.Unmarshal result (generated reflection) differs: %s", diffStr(a, b))
			}
			p3 := t.New()
			if err := protojson.Unmarshal(ref, p3); err != nil {
				return fmt.Errorf("protojson.Unmarshal of the same input failed the second time: %v", err)
			}
			if err := independentParses("protojson", p2, p3); err != nil {
				return err
			}
			if a, b := canonI(p3), canonD(d2.ProtoReflect()); a != b {
				return fmt.Errorf("a message parsed by protojson changed when another parse result was modified: %s", diffStr(a, b))
			}
		}
		ctx.Label("json: compared")
	case "text":
		mo := prototext.MarshalOptions{Multiline: c.argInt("variant")%2 == 0, EmitUnknown: false}
		got, e1 := mo.Marshal(p)
		ref, e2 := mo.Marshal(d)
		if (e1 == nil) != (e2 == nil) {
			return fmt.Errorf("prototext.Marshal error disagreement: generated %v, reference %v", e1, e2)
		}
		if e1 != nil {
			ctx.Label("text: both reject")
			break
		}
		dg, dr := t.NewD(), t.NewD()
		g1 := prototext.Unmarshal(got, dg)
		r1 := prototext.Unmarshal(ref, dr)
		if (g1 == nil) != (r1 == nil) {
			return fmt.Errorf("text output of the generated message parses differently: %v vs %v\n %s", g1, r1, trunc(string(got), 400))
		}
		if g1 == nil {
			if a, b := canonD(dg.ProtoReflect()), canonD(dr.ProtoReflect()); a != b {
				return fmt.Errorf("prototext output differs semantically: %s", diffStr(a, b))
			}
			p2 := t.New()
			if c.argInt("variant")%3 == 1 {
				p2 = model.BuildP(t, d.ProtoReflect()) // already populated
			}
			if err := prototext.Unmarshal(ref, p2); err != nil {
				return fmt.Errorf("prototext.Unmarshal into the generated message failed: %v", err)
			}
			if a, b := canonI(p2), canonD(dr.ProtoReflect()); a != b {
				return fmt.Errorf("prototext.Unmarshal result differs from reference: %s", diffStr(a, b))
			}
			p3 := t.New()
			if err := prototext.Unmarshal(ref, p3); err != nil {
				return fmt.Errorf("prototext.Unmarshal of the same input failed the second time: %v", err)
			}
			if err := independentParses("prototext", p2, p3); err != nil {
				return err
			}
			if a, b := canonI(p3), canonD(dr.ProtoReflect()); a != b {
				return fmt.Errorf("a message parsed by prototext changed when another parse result was modified: %s", diffStr(a, b))
			}
		}
		if s, ok := p.(fmt.Stringer); ok {
			_ = s.String()
		}
		ctx.Label("text: compared")
	default:
		return fmt.Errorf("HARNESS: unknown sub %q", c.Sub)
	}
	if want != "{}" {
		ctx.Nontrivial(c.Type, c.Sub, c.Bytes, c.Bytes2, c.arg("variant"))
	} else {
		ctx.Label("trivial: empty V")
	}
	ctx.Label("sub=" + c.Sub)
	return nil
}
