package engines

import (
	"encoding/json"
	"fmt"
	"reflect"

	"google.golang.org/protobuf/encoding/protojson"
	"google.golang.org/protobuf/encoding/prototext"
	"google.golang.org/protobuf/proto"
	"google.golang.org/protobuf/reflect/protoreflect"
	"pgregory.net/rapid"

	"verif/kit/model"
)

func init() {
	register(&Engine{
		ID:   "C10",
		Desc: "library algorithms and JSON/text codecs agree with the reference",
		Rule: "per generated type: values V and W (W is an independent draw, a copy of V, or V plus one extra record: about a third each, so Equal is true about half the time); subs: equal (proto.Equal on generated vs on dynamicpb messages, symmetric, reflexive on clones), clone (deep equality and independence: wiping every field of the clone bottom-up and complementing its byte slices leaves the original's struct snapshot unchanged), merge (== proto.Merge on dynamicpb; source unchanged; destination independent of the source afterwards), reset, checkinit, json (protojson.Marshal in 5 option variants compared after JSON parsing, error/no-error agreement; protojson.Unmarshal of the reference's output into generated and dynamic messages), text (prototext.Marshal compared after parsing back; prototext.Unmarshal of the reference's output, multiline and compact). Non-trivial: V non-empty; distinct by digest of (type, sub, V, W).",
		Run:  runC10, Replay: func(ctx *Ctx, c *Case) error { return checkC10(ctx, c) },
		Assumptions: []string{"protojson/prototext byte output is unstable by design and is compared semantically", "dynamicpb is the reference for every algorithm"},
	})
}

func runC10(ctx *Ctx) {
	n := ctx.N(3000, 30000)
	for _, t := range ctx.types() {
		t := t
		ctx.CheckRapid(string(t.Name), n, func(rt *rapid.T) *Case {
			sub := rapid.SampledFrom([]string{"equal", "equal", "clone", "merge", "merge", "selfmerge", "sharereset", "reset", "checkinit", "json", "json", "text", "text"}).Draw(rt, "sub")
			unknown := rapid.IntRange(0, 2).Draw(rt, "unknown") == 0 && sub != "json" && sub != "text"
			canonical := sub == "json" || sub == "text" || rapid.Bool().Draw(rt, "canonical")
			b, d := ctx.genTypeStream(rt, t, unknown, canonical)
			if d == nil {
				return nil
			}
			c := &Case{Sub: sub, Type: string(t.Name), Bytes: hexs(b), Args: map[string]string{}}
			if sub == "equal" || sub == "merge" || sub == "sharereset" {
				switch rapid.IntRange(0, 2).Draw(rt, "wclass") {
				case 0:
					c.Bytes2 = c.Bytes
					c.Args["w"] = "copy"
				case 1:
					b2, d2 := ctx.genTypeStream(rt, t, unknown, canonical)
					if d2 == nil {
						return nil
					}
					c.Bytes2 = hexs(b2)
					c.Args["w"] = "independent"
				default:
					cfg := ctx.streamCfg(unknown, true)
					cfg.MaxRecords = 1
					extra := cfg.GenStream(rt, t.Desc, 0)
					w := append(append([]byte{}, b...), extra...)
					if _, err := decodeD(t, w); err != nil {
						return nil
					}
					c.Bytes2 = hexs(w)
					c.Args["w"] = "perturbed"
				}
			}
			c.Args["variant"] = fmt.Sprint(rapid.IntRange(0, 4).Draw(rt, "variant"))
			return c
		}, func(c *Case) error { return checkC10(ctx, c) })
	}
}

// wipe clears every field of m bottom-up through protobuf-go's own reflection.
func wipe(m protoreflect.Message, depth int) {
	if depth > 50 || !m.IsValid() {
		return
	}
	m = model.Impl(m)
	var fds []protoreflect.FieldDescriptor
	m.Range(func(fd protoreflect.FieldDescriptor, v protoreflect.Value) bool {
		switch {
		case fd.IsList() && fd.Message() != nil:
			for i := 0; i < v.List().Len(); i++ {
				wipe(v.List().Get(i).Message(), depth+1)
			}
		case fd.IsMap() && fd.MapValue().Message() != nil:
			v.Map().Range(func(_ protoreflect.MapKey, mv protoreflect.Value) bool { wipe(mv.Message(), depth+1); return true })
		case fd.Message() != nil && !fd.IsList() && !fd.IsMap():
			wipe(v.Message(), depth+1)
		}
		fds = append(fds, fd)
		return true
	})
	for _, fd := range fds {
		switch {
		case fd.IsList():
			m.Mutable(fd).List().Truncate(0)
		case fd.IsMap():
			mp := m.Mutable(fd).Map()
			var keys []protoreflect.MapKey
			mp.Range(func(k protoreflect.MapKey, _ protoreflect.Value) bool { keys = append(keys, k); return true })
			for _, k := range keys {
				mp.Clear(k)
			}
		}
		m.Clear(fd)
	}
	m.SetUnknown(nil)
}

// scribble adds an unknown record to m and to every message reachable from it
// (field-less messages included: unknown fields are the only state they have).
func scribble(m protoreflect.Message, depth int) {
	if depth > 50 || !m.IsValid() {
		return
	}
	m.Range(func(fd protoreflect.FieldDescriptor, v protoreflect.Value) bool {
		switch {
		case fd.IsList() && fd.Message() != nil:
			for i := 0; i < v.List().Len(); i++ {
				scribble(v.List().Get(i).Message(), depth+1)
			}
		case fd.IsMap() && fd.MapValue().Message() != nil:
			v.Map().Range(func(_ protoreflect.MapKey, mv protoreflect.Value) bool { scribble(mv.Message(), depth+1); return true })
		case fd.Message() != nil && !fd.IsList() && !fd.IsMap():
			scribble(v.Message(), depth+1)
		}
		return true
	})
	m.SetUnknown(append(append(protoreflect.RawFields(nil), m.GetUnknown()...), 0xf8, 0x7f, 0x2a)) // field 2047 varint 42
}

// independentParses: two messages parsed from the same text must not share
// anything: disturbing every part of the first leaves the second untouched.
func independentParses(what string, first, second proto.Message) error {
	before := model.Snapshot(second)
	canonBefore := canonI(second)
	if err := safely(func() error { scribble(first.ProtoReflect(), 0); return nil }); err != nil {
		return nil // e.g. a nil element held read-only: nothing to disturb through it
	}
	if after := model.Snapshot(second); after != before {
		return fmt.Errorf("two messages parsed by %s from the same input share state: adding unknown fields to every message of the first changed the second: %s (value before %s, now %s)", what, diffStr(after, before), trunc(canonBefore, 200), trunc(canonI(second), 200))
	}
	for _, s := range model.ByteSlices(first) {
		complement(s)
	}
	wipe(first.ProtoReflect(), 0)
	if after := model.Snapshot(second); after != before {
		return fmt.Errorf("two messages parsed by %s from the same input share state: changing the first changed the second: %s (value before %s, now %s)", what, diffStr(after, before), trunc(canonBefore, 200), trunc(canonI(second), 200))
	}
	return nil
}

func jsonSemantic(b []byte) (interface{}, error) {
	var v interface{}
	err := json.Unmarshal(b, &v)
	return v, err
}

func checkC10(ctx *Ctx, c *Case) error {
	t, err := mustType(c.Type)
	if err != nil {
		return err
	}
	d, err := decodeD(t, unhex(c.Bytes))
	if err != nil {
		return nil
	}
	want := canonD(d.ProtoReflect())
	p := model.BuildP(t, d.ProtoReflect())
	switch c.Sub {
	case "equal":
		dw, err := decodeD(t, unhex(c.Bytes2))
		if err != nil {
			return nil
		}
		pw := model.BuildP(t, dw.ProtoReflect())
		ref := proto.Equal(d, dw)
		if got := proto.Equal(p, pw); got != ref {
			return fmt.Errorf("proto.Equal(V,W) = %v on generated messages, %v on reference messages (W is %s)", got, ref, c.arg("w"))
		}
		if got := proto.Equal(pw, p); got != ref {
			return fmt.Errorf("proto.Equal is not symmetric: Equal(W,V) = %v, reference %v", got, ref)
		}
		if refl, rrefl := proto.Equal(p, proto.Clone(p)), proto.Equal(d, proto.Clone(d)); refl != rrefl {
			return fmt.Errorf("proto.Equal(V, Clone(V)) = %v, reference %v", refl, rrefl)
		}
		ctx.Label(fmt.Sprintf("equal: %v (W %s)", ref, c.arg("w")))
	case "clone":
		before := model.Snapshot(p)
		cl := proto.Clone(p)
		if got := canonI(cl); got != want {
			return fmt.Errorf("proto.Clone differs from the original: %s", diffStr(got, want))
		}
		if reflect.TypeOf(cl) != reflect.TypeOf(p) {
			return fmt.Errorf("proto.Clone returned a %T", cl)
		}
		for _, s := range model.ByteSlices(cl) {
			complement(s)
		}
		_ = safely(func() error { scribble(cl.ProtoReflect(), 0); return nil })
		if after := model.Snapshot(p); after != before {
			return fmt.Errorf("adding unknown fields to every message of the clone changed the original (shallow copy): %s", diffStr(after, before))
		}
		wipe(cl.ProtoReflect(), 0)
		if after := model.Snapshot(p); after != before {
			return fmt.Errorf("mutating the clone changed the original (shallow copy): %s", diffStr(after, before))
		}
	case "merge":
		dw, err := decodeD(t, unhex(c.Bytes2))
		if err != nil {
			return nil
		}
		pw := model.BuildP(t, dw.ProtoReflect())
		wBefore := model.Snapshot(pw)
		proto.Merge(d, dw)
		refCanon := canonD(d.ProtoReflect())
		proto.Merge(p, pw)
		if got := canonI(p); got != refCanon {
			return fmt.Errorf("proto.Merge(V,W) differs from the reference: %s", diffStr(got, refCanon))
		}
		if after := model.Snapshot(pw); after != wBefore {
			return fmt.Errorf("proto.Merge changed its source: %s", diffStr(after, wBefore))
		}
		for _, s := range model.ByteSlices(pw) {
			complement(s)
		}
		_ = safely(func() error { scribble(pw.ProtoReflect(), 0); return nil })
		if got := canonI(p); got != refCanon {
			return fmt.Errorf("destination shares a message with the Merge source (unknown fields added to the source show up): %s", diffStr(got, refCanon))
		}
		wipe(pw.ProtoReflect(), 0)
		if got := canonI(p); got != refCanon {
			return fmt.Errorf("destination shares memory with the Merge source: %s", diffStr(got, refCanon))
		}
	case "sharereset":
		// b receives a's lists by Set (what generic code such as Merge-like
		// copiers does), then a is reset (proto.Reset, or implicitly by a JSON
		// unmarshal) and refilled with another value: b must not change. Checked
		// on the reference first (if dynamicpb's b changes the case is only counted).
		dw, err := decodeD(t, unhex(c.Bytes2))
		if err != nil {
			return nil
		}
		share := func(a, b protoreflect.Message) int {
			n := 0
			a.Range(func(fd protoreflect.FieldDescriptor, v protoreflect.Value) bool {
				if fd.IsList() {
					b.Set(b.Descriptor().Fields().ByNumber(fd.Number()), v)
					n++
				}
				return true
			})
			return n
		}
		db := t.NewD()
		if share(d.ProtoReflect(), db.ProtoReflect()) == 0 {
			ctx.Label("trivial: no populated list to share")
			return nil
		}
		refB := canonD(db.ProtoReflect())
		proto.Reset(d)
		model.CopyInto(d.ProtoReflect(), dw.ProtoReflect(), model.Same)
		if canonD(db.ProtoReflect()) != refB {
			ctx.Label("reference: sharing a list then reset+refill disturbs the receiver (not asserted)")
			return nil
		}
		pb := t.New()
		share(p.ProtoReflect(), pb.ProtoReflect())
		if got := canonI(pb); got != refB {
			return fmt.Errorf("HARNESS: receiver differs right after sharing: %s", diffStr(got, refB))
		}
		if c.argInt("variant")%2 == 0 {
			proto.Reset(p)
		} else if js, err := protojson.Marshal(dw); err == nil {
			if err := protojson.Unmarshal(js, p); err != nil {
				proto.Reset(p)
			}
		} else {
			proto.Reset(p)
		}
		wipe(p.ProtoReflect(), 0) // whatever the JSON path left
		model.CopyInto(p.ProtoReflect(), dw.ProtoReflect(), model.Same)
		if got := canonI(pb); got != refB {
			return fmt.Errorf("a message that received lists from another message by Set changed when that other message was reset and refilled: %s", diffStr(got, refB))
		}
	case "selfmerge":
		// source and destination are the same message: the reference appends
		// repeated fields and unknown bytes to themselves
		proto.Merge(d, d)
		refCanon := canonD(d.ProtoReflect())
		proto.Merge(p, p)
		if got := canonI(p); got != refCanon {
			return fmt.Errorf("proto.Merge(m, m) differs from the reference: %s", diffStr(got, refCanon))
		}
	case "reset":
		proto.Reset(p)
		if got := canonI(p); got != "{}" {
			return fmt.Errorf("proto.Reset left %s", trunc(got, 300))
		}
		if got := canonP(p); got != "{}" {
			return fmt.Errorf("proto.Reset left (generated reflection) %s", trunc(got, 300))
		}
		if proto.Size(p) != 0 {
			return fmt.Errorf("proto.Reset: Size = %d", proto.Size(p))
		}
	case "checkinit":
		e1, e2 := proto.CheckInitialized(p), proto.CheckInitialized(d)
		if (e1 == nil) != (e2 == nil) {
			return fmt.Errorf("CheckInitialized = %v, reference %v", e1, e2)
		}
	case "json":
		variants := []protojson.MarshalOptions{{}, {UseProtoNames: true}, {UseEnumNumbers: true}, {EmitUnpopulated: true}, {Multiline: true, Indent: "  "}}
		mo := variants[c.argInt("variant")%len(variants)]
		got, e1 := mo.Marshal(p)
		ref, e2 := mo.Marshal(d)
		if (e1 == nil) != (e2 == nil) {
			return fmt.Errorf("protojson.Marshal error disagreement: generated %v, reference %v", e1, e2)
		}
		if e1 != nil {
			ctx.Label("json: both reject")
			break
		}
		g, ge := jsonSemantic(got)
		r, re := jsonSemantic(ref)
		if ge != nil || re != nil || !reflect.DeepEqual(g, r) {
			return fmt.Errorf("protojson output differs semantically:\n generated %s\n reference %s", trunc(string(got), 600), trunc(string(ref), 600))
		}
		// parse the reference's output into both: once into fresh messages, once
		// into messages that already hold content (the codecs reset first)
		p2, d2 := t.New(), t.NewD()
		if c.argInt("variant")%2 == 1 {
			p2 = model.BuildP(t, d.ProtoReflect())
			d2 = t.NewD()
			model.CopyInto(d2.ProtoReflect(), d.ProtoReflect(), model.Same)
		}
		u1 := protojson.Unmarshal(ref, p2)
		u2 := protojson.Unmarshal(ref, d2)
		if (u1 == nil) != (u2 == nil) {
			return fmt.Errorf("protojson.Unmarshal error disagreement: generated %v, reference %v (input %s)", u1, u2, trunc(string(ref), 400))
		}
		if u1 == nil {
			if a, b := canonI(p2), canonD(d2.ProtoReflect()); a != b {
				return fmt.Errorf("protojson.Unmarshal result differs from reference: %s", diffStr(a, b))
			}
			if a, b := canonP(p2), canonD(d2.ProtoReflect()); a != b {
				return fmt.Errorf("protojson.Unmarshal result (generated reflection) differs: %s", diffStr(a, b))
			}
			p3 := t.New()
			if err := protojson.Unmarshal(ref, p3); err != nil {
				return fmt.Errorf("protojson.Unmarshal of the same input failed the second time: %v", err)
			}
			if err := independentParses("protojson", p2, p3); err != nil {
				return err
			}
			if a, b := canonI(p3), canonD(d2.ProtoReflect()); a != b {
				return fmt.Errorf("a message parsed by protojson changed when another parse result was modified: %s", diffStr(a, b))
			}
		}
		ctx.Label("json: compared")
	case "text":
		mo := prototext.MarshalOptions{Multiline: c.argInt("variant")%2 == 0, EmitUnknown: false}
		got, e1 := mo.Marshal(p)
		ref, e2 := mo.Marshal(d)
		if (e1 == nil) != (e2 == nil) {
			return fmt.Errorf("prototext.Marshal error disagreement: generated %v, reference %v", e1, e2)
		}
		if e1 != nil {
			ctx.Label("text: both reject")
			break
		}
		dg, dr := t.NewD(), t.NewD()
		g1 := prototext.Unmarshal(got, dg)
		r1 := prototext.Unmarshal(ref, dr)
		if (g1 == nil) != (r1 == nil) {
			return fmt.Errorf("text output of the generated message parses differently: %v vs %v\n %s", g1, r1, trunc(string(got), 400))
		}
		if g1 == nil {
			if a, b := canonD(dg.ProtoReflect()), canonD(dr.ProtoReflect()); a != b {
				return fmt.Errorf("prototext output differs semantically: %s", diffStr(a, b))
			}
			p2 := t.New()
			if c.argInt("variant")%3 == 1 {
				p2 = model.BuildP(t, d.ProtoReflect()) // already populated
			}
			if err := prototext.Unmarshal(ref, p2); err != nil {
				return fmt.Errorf("prototext.Unmarshal into the generated message failed: %v", err)
			}
			if a, b := canonI(p2), canonD(dr.ProtoReflect()); a != b {
				return fmt.Errorf("prototext.Unmarshal result differs from reference: %s", diffStr(a, b))
			}
			p3 := t.New()
			if err := prototext.Unmarshal(ref, p3); err != nil {
				return fmt.Errorf("prototext.Unmarshal of the same input failed the second time: %v", err)
			}
			if err := independentParses("prototext", p2, p3); err != nil {
				return err
			}
			if a, b := canonI(p3), canonD(dr.ProtoReflect()); a != b {
				return fmt.Errorf("a message parsed by prototext changed when another parse result was modified: %s", diffStr(a, b))
			}
		}
		if s, ok := p.(fmt.Stringer); ok {
			_ = s.String()
		}
		ctx.Label("text: compared")
	default:
		return fmt.Errorf("HARNESS: unknown sub %q", c.Sub)
	}
	if want != "{}" {
		ctx.Nontrivial(c.Type, c.Sub, c.Bytes, c.Bytes2, c.arg("variant"))
	} else {
		ctx.Label("trivial: empty V")
	}
	ctx.Label("sub=" + c.Sub)
	return nil
}
