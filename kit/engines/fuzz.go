package engines

import "testing"

// FuzzDecode is the native coverage-guided target (C06 thorough arm).
func FuzzDecode(f *testing.F) { fuzzDecode(f) }
