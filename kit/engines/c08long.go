package engines

import (
	"fmt"
	"math"
	"strconv"

	"google.golang.org/protobuf/reflect/protoreflect"
	"pgregory.net/rapid"

	"verif/kit/model"
)

// Sub longlist of C08: lists far longer than the random histories make them.
// A scalar / enum / string / bytes list is grown element by element to 65...400
// elements (the slice passes several capacity doublings), cut with Truncate,
// grown again and overwritten with Set(i), on the generated type and on
// dynamicpb in lock step; after every phase the struct (read by protoimpl) must
// equal the reference and the view must report the same length and elements.

func nthScalar(fd protoreflect.FieldDescriptor, i int) protoreflect.Value {
	switch fd.Kind() {
	case protoreflect.BoolKind:
		return protoreflect.ValueOfBool(i%3 == 0)
	case protoreflect.EnumKind:
		return protoreflect.ValueOfEnum(protoreflect.EnumNumber(i % 5))
	case protoreflect.Int32Kind, protoreflect.Sint32Kind, protoreflect.Sfixed32Kind:
		return protoreflect.ValueOfInt32(int32(i*7 - 300))
	case protoreflect.Uint32Kind, protoreflect.Fixed32Kind:
		return protoreflect.ValueOfUint32(uint32(i*11 + 1))
	case protoreflect.Int64Kind, protoreflect.Sint64Kind, protoreflect.Sfixed64Kind:
		return protoreflect.ValueOfInt64(int64(i)*1000003 - 5000)
	case protoreflect.Uint64Kind, protoreflect.Fixed64Kind:
		return protoreflect.ValueOfUint64(uint64(i)*1000003 + 1)
	case protoreflect.FloatKind:
		return protoreflect.ValueOfFloat32(float32(i) + 0.5)
	case protoreflect.DoubleKind:
		return protoreflect.ValueOfFloat64(math.Sqrt(float64(i + 2)))
	case protoreflect.StringKind:
		return protoreflect.ValueOfString("s" + strconv.Itoa(i))
	case protoreflect.BytesKind:
		return protoreflect.ValueOfBytes([]byte{byte(i), byte(i >> 8), 0xfe})
	}
	return protoreflect.Value{}
}

func runC08LongList(ctx *Ctx) {
	n := ctx.N(40, 400)
	for _, t := range ctx.types() {
		t := t
		var fds []protoreflect.FieldDescriptor
		for i := 0; i < t.Desc.Fields().Len(); i++ {
			if fd := t.Desc.Fields().Get(i); fd.IsList() && fd.Message() == nil {
				fds = append(fds, fd)
			}
		}
		if len(fds) == 0 {
			continue
		}
		ctx.CheckRapid(string(t.Name)+"/longlist", n, func(rt *rapid.T) *Case {
			fd := fds[rapid.IntRange(0, len(fds)-1).Draw(rt, "field")]
			grow := rapid.IntRange(65, 400).Draw(rt, "grow")
			cut := rapid.OneOf(rapid.IntRange(0, grow/4), rapid.IntRange(0, grow)).Draw(rt, "cut")
			return &Case{Sub: "longlist", Type: string(t.Name), Args: map[string]string{
				"field": strconv.Itoa(int(fd.Number())), "grow": strconv.Itoa(grow), "cut": strconv.Itoa(cut),
				"more": strconv.Itoa(rapid.IntRange(0, 40).Draw(rt, "more")),
			}}
		}, func(c *Case) error { return checkC08(ctx, c) })
	}
}

func checkC08LongList(ctx *Ctx, c *Case) error {
	t, err := mustType(c.Type)
	if err != nil {
		return err
	}
	fd := t.Desc.Fields().ByNumber(protoreflect.FieldNumber(c.argInt("field")))
	if fd == nil || !fd.IsList() || fd.Message() != nil {
		return fmt.Errorf("HARNESS: %s has no scalar list field %s", c.Type, c.arg("field"))
	}
	p, d := t.New(), t.NewD()
	pl, dl := p.ProtoReflect().Mutable(fd).List(), d.ProtoReflect().Mutable(fd).List()
	same := func(after string) error {
		if pl.Len() != dl.Len() {
			return fmt.Errorf("%s: list view reports %d elements, reference %d", after, pl.Len(), dl.Len())
		}
		for i := 0; i < dl.Len(); i++ {
			if g, w := model.CanonValue(fd, pl.Get(i)), model.CanonValue(fd, dl.Get(i)); g != w {
				return fmt.Errorf("%s: element %d of %d is %s, reference %s", after, i, dl.Len(), g, w)
			}
		}
		if got, want := canonI(p), canonD(d.ProtoReflect()); got != want {
			return fmt.Errorf("%s: the struct differs from the reference: %s", after, diffStr(got, want))
		}
		return nil
	}
	grow, cut, more := c.argInt("grow"), c.argInt("cut"), c.argInt("more")
	for i := 0; i < grow; i++ {
		v := nthScalar(fd, i)
		pl.Append(v)
		dl.Append(v)
	}
	if err := same(fmt.Sprintf("after %d appends", grow)); err != nil {
		return err
	}
	pl.Truncate(cut)
	dl.Truncate(cut)
	if err := same(fmt.Sprintf("after %d appends and Truncate(%d)", grow, cut)); err != nil {
		return err
	}
	for i := 0; i < more; i++ {
		v := nthScalar(fd, 1000+i)
		pl.Append(v)
		dl.Append(v)
	}
	if err := same(fmt.Sprintf("after %d appends, Truncate(%d) and %d appends", grow, cut, more)); err != nil {
		return err
	}
	if n := dl.Len(); n > 0 {
		for _, i := range []int{0, n / 2, n - 1} {
			v := nthScalar(fd, 5000+i)
			pl.Set(i, v)
			dl.Set(i, v)
		}
		if err := same("after Set at the first, middle and last index"); err != nil {
			return err
		}
	}
	ctx.Label("longlist: grown, cut, grown again")
	ctx.Nontrivial("longlist", c.Type, c.arg("field"), c.arg("grow"), c.arg("cut"), c.arg("more"))
	return nil
}
