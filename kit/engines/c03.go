package engines

import (
	"fmt"

	"google.golang.org/protobuf/proto"
	"google.golang.org/protobuf/runtime/protoiface"
	"pgregory.net/rapid"

	"verif/kit/model"
)

func init() {
	register(&Engine{
		ID:   "C03",
		Desc: "decoding any well-typed wire stream gives the reference result",
		Rule: "per generated type: a random well-typed record stream (any order and multiplicity, packed/unpacked alternatives, split and empty packed runs, padded varints/tags/lengths, partial/duplicated/reordered map entries, interleaved unknown records, repeated occurrences of singular and oneof message fields); sub-checks: decode (differential vs dynamicpb, protoimpl codec as third voice), concat (decode(a||b) == Merge(decode a, decode b) on the reference), mergeopt (UnmarshalOptions{Merge:true} into decode(a) with b == decode(a||b)). Non-trivial: at least one non-canonical feature label fired for the stream; distinct by digest of (type, sub, bytes).",
		Run:  runC03, Replay: func(ctx *Ctx, c *Case) error { return checkC03(ctx, c) },
		Assumptions: []string{"dynamicpb (reflection-driven decoder of protobuf-go v1.34.0) is the reference decoder", "streams the reference rejects are discarded and counted", "duplicated message-typed value inside one map entry is not generated (statement and reference disagree)"},
	})
}

func runC03(ctx *Ctx) {
	defer runScale(ctx, "decode", map[string]string{"nontrivial": "1"}, func(c *Case) error { return checkC03(ctx, c) })
	n := ctx.N(4000, 40000)
	for _, t := range ctx.types() {
		t := t
		ctx.CheckRapid(string(t.Name), n, func(rt *rapid.T) *Case {
			cfg := ctx.streamCfg(rapid.IntRange(0, 2).Draw(rt, "unknown") == 0, false)
			switch rapid.IntRange(0, 7).Draw(rt, "bias") {
			case 0:
				cfg.MapBurst = 6
			case 1:
				cfg.ListBurst = 40
			}
			b := cfg.GenStream(rt, t.Desc, 0)
			ctx.MergeExcluded(cfg.Excluded)
			if _, err := decodeD(t, b); err != nil {
				ctx.Label("discarded: reference decoder rejected generated stream")
				ctx.Note("reference rejected: %s %v %s", t.Name, err, trunc(hexs(b), 300))
				return nil
			}
			ctx.MergeLabels(cfg.Labels)
			c := &Case{Type: string(t.Name), Bytes: hexs(b), Args: map[string]string{}}
			c.Sub = rapid.SampledFrom([]string{"decode", "decode", "concat", "mergeopt"}).Draw(rt, "sub")
			if c.Sub != "decode" {
				recs, ok := model.SplitRecords(b)
				if !ok || len(recs) < 2 {
					c.Sub = "decode"
				} else {
					k := rapid.IntRange(1, len(recs)-1).Draw(rt, "split")
					off := 0
					for _, r := range recs[:k] {
						off += len(r.Raw)
					}
					c.Args["split"] = fmt.Sprint(off)
				}
			}
			if len(cfg.Labels) > 0 {
				c.Args["nontrivial"] = "1"
			}
			return c
		}, func(c *Case) error { return checkC03(ctx, c) })
	}
}

// implDecode decodes b into a fresh struct with protobuf-go's table-driven
// codec at the top level (third voice).
func implDecode(t *model.Type, b []byte) (p proto.Message, err error) {
	defer func() {
		if r := recover(); r != nil {
			err = fmt.Errorf("impl codec panicked: %v", r)
		}
	}()
	p = t.New()
	_, err = proto.UnmarshalOptions{AllowPartial: true, Merge: true}.UnmarshalState(protoiface.UnmarshalInput{Message: model.ImplOf(p), Buf: b})
	return p, err
}

func checkC03(ctx *Ctx, c *Case) error {
	scaleBytes(c)
	t, err := mustType(c.Type)
	if err != nil {
		return err
	}
	b := unhex(c.Bytes)
	d, err := decodeD(t, b)
	if err != nil {
		return nil // not well-typed for the reference
	}
	want := canonD(d.ProtoReflect())
	switch c.Sub {
	case "decode", "":
		p := t.New()
		if err := proto.Unmarshal(b, p); err != nil {
			return fmt.Errorf("Unmarshal rejected a well-typed stream the reference accepts: %v", err)
		}
		got := canonI(p)
		if got != want {
			// third voice: only alarm when the two references agree
			if ip, ierr := implDecode(t, b); ierr == nil && canonI(ip) != want {
				ctx.Label("references disagree: protoimpl vs dynamicpb decode (not asserted)")
				return nil
			}
			return fmt.Errorf("decoded value differs from reference: %s", diffStr(got, want))
		}
		if g2 := canonP(p); g2 != want {
			return fmt.Errorf("decoded value read through generated reflection differs from reference: %s", diffStr(g2, want))
		}
	case "concat":
		off := c.argInt("split")
		a, bb := b[:off], b[off:]
		da, err1 := decodeD(t, a)
		db, err2 := decodeD(t, bb)
		if err1 != nil || err2 != nil {
			return nil
		}
		proto.Merge(da, db)
		if canonD(da.ProtoReflect()) != want {
			ctx.Label("reference itself violates concat==merge (not asserted)")
			return nil
		}
		pa, pb := t.New(), t.New()
		if err := proto.Unmarshal(a, pa); err != nil {
			return fmt.Errorf("Unmarshal(a) failed: %v", err)
		}
		if err := proto.Unmarshal(bb, pb); err != nil {
			return fmt.Errorf("Unmarshal(b) failed: %v", err)
		}
		proto.Merge(pa, pb)
		if got := canonI(pa); got != want {
			return fmt.Errorf("Merge(decode(a), decode(b)) differs from reference decode(a||b): %s", diffStr(got, want))
		}
		p := t.New()
		if err := proto.Unmarshal(b, p); err != nil {
			return fmt.Errorf("Unmarshal(a||b) failed: %v", err)
		}
		if got := canonI(p); got != want {
			return fmt.Errorf("decode(a||b) differs from reference: %s", diffStr(got, want))
		}
	case "mergeopt":
		off := c.argInt("split")
		a, bb := b[:off], b[off:]
		da, err1 := decodeD(t, a)
		if err1 != nil {
			return nil
		}
		if _, err2 := decodeD(t, bb); err2 != nil {
			return nil
		}
		// reference: Merge option on dynamicpb
		if err := (proto.UnmarshalOptions{Merge: true, AllowPartial: true}).Unmarshal(bb, da); err != nil {
			return nil
		}
		if canonD(da.ProtoReflect()) != want {
			ctx.Label("reference itself violates merge-option==concat (not asserted)")
			return nil
		}
		da2, _ := decodeD(t, a)
		p := model.BuildP(t, da2.ProtoReflect())
		if digest(c.Bytes, "stalecap")%2 == 0 && model.AddStaleCapacity(p) > 0 {
			// the lists of the destination carry spare capacity with stale content, as
			// plain re-slicing leaves it: the same value
			ctx.Label("mergeopt into lists with stale spare capacity")
		}
		if err := (proto.UnmarshalOptions{Merge: true}).Unmarshal(bb, p); err != nil {
			return fmt.Errorf("Unmarshal with Merge rejected a well-typed stream: %v", err)
		}
		if got := canonI(p); got != want {
			return fmt.Errorf("Merge-option decode into decode(a) differs from reference decode(a||b): %s", diffStr(got, want))
		}
		// the same with a destination whose struct holds nil where an empty message
		// stands (list element, map value, oneof wrapper): merging into it must
		// give what merging into the equal message without nils gives
		if digest(c.Bytes, "nildst")%2 == 0 {
			da3, _ := decodeD(t, a)
			q := model.BuildP(t, da3.ProtoReflect())
			sites := model.NilSites(q)
			if len(sites) > 0 {
				for i := range sites {
					if digest(c.Bytes, fmt.Sprint("site", i))%2 == 0 {
						sites[i].Apply()
					}
				}
				vb, err := implDet(q)
				if err != nil {
					ctx.Label("reference codec unavailable for nil-injected struct")
					return nil
				}
				dv, err := decodeD(t, vb)
				if err != nil {
					return nil
				}
				if err := (proto.UnmarshalOptions{Merge: true, AllowPartial: true}).Unmarshal(bb, dv); err != nil {
					return nil
				}
				if err := (proto.UnmarshalOptions{Merge: true}).Unmarshal(bb, q); err != nil {
					return fmt.Errorf("Unmarshal with Merge into a message holding nil elements rejected a well-typed stream: %v", err)
				}
				if got, w2 := canonI(q), canonD(dv.ProtoReflect()); got != w2 {
					return fmt.Errorf("Merge-option decode into a message whose struct holds nil for empty messages differs from the reference: %s", diffStr(got, w2))
				}
				ctx.Label("mergeopt into nil-injected destination")
			}
		}
	default:
		return fmt.Errorf("HARNESS: unknown sub %q", c.Sub)
	}
	if c.arg("nontrivial") == "1" {
		ctx.Nontrivial(c.Type, c.Sub, c.Bytes)
	} else {
		ctx.Label("trivial: canonical stream")
	}
	ctx.Label("sub=" + c.Sub)
	return nil
}
