package engines

import "testing"

func fuzzDecode(f *testing.F) { f.Skip("not built yet") }
