package engines

import (
	"bufio"
	"bytes"
	"encoding/json"
	"fmt"
	"os"
	"os/exec"
	"reflect"
	"runtime"
	"strconv"
	"strings"
	"testing"
	"time"

	"google.golang.org/protobuf/encoding/protojson"
	"google.golang.org/protobuf/encoding/protowire"
	"google.golang.org/protobuf/proto"
	"google.golang.org/protobuf/reflect/protoreflect"
	"pgregory.net/rapid"

	"verif/kit/model"
)

func init() {
	register(&Engine{
		ID:   "C06",
		Desc: "Unmarshal is total: arbitrary bytes never crash, hang or exhaust the stack",
		Rule: "arm mutate (per generated type): a valid well-typed stream pushed through 1..3 byte mutators (truncate, bit flip, splice with a second stream, overwrite/insert hostile varints {0,1,2^31-1,2^31,2^32,2^63,2^64-1, 11-byte}, change a wire type, stray end-group, wrap k levels deeper in a message-typed field, pure random bytes), <= 64 KiB; oracle: Unmarshal returns within the watchdog, no panic, allocation <= linear budget, and an accepted message survives Size, Marshal (both modes), Equal with its Clone, a deep Get/Range walk, String() and protojson.Marshal without panicking. arm depth (per recursive type, child process): nested payloads of depth d against UnmarshalOptions{RecursionLimit:r}, r in 1..8 and default, d in r-2..r+2; oracle: accept/reject exactly as dynamicpb; a crash of the child is a violation. Thorough adds native coverage-guided fuzzing (go test -fuzz, all cores) of the same target. Non-trivial: input that gets past the first tag (accepted with >= 1 populated field/unknown record, or rejected after byte 2); distinct by digest of (type, bytes).",
		Run:  runC06, Replay: replayC06,
		Assumptions: []string{"allocation budget: 64 KiB + 4*(len+1)*(largest reachable struct size+64), calibrated with a wide margin on the unchanged tree", "watchdog 20 s per call on inputs <= 64 KiB (normal: microseconds)"},
	})
}

// drawHostile picks a constant of hostileVarints or a value just below a
// power-of-two limit (2^31, 2^32, 2^63, 2^64 minus 1..81): index arithmetic
// that adds a small offset to such a length wraps around.
func drawHostile(rt *rapid.T, label string) []byte {
	if rapid.Bool().Draw(rt, label+"Near") {
		base := rapid.SampledFrom([]uint64{1 << 31, 1 << 32, 1 << 63, 0}).Draw(rt, label+"Base")
		return protowire.AppendVarint(nil, base-1-uint64(rapid.IntRange(0, 80).Draw(rt, label+"Delta")))
	}
	return rapid.SampledFrom(hostileVarints).Draw(rt, label)
}

// unmarshalVariants are the option sets every input is also decoded under.
var unmarshalVariants = []struct {
	name string
	opts proto.UnmarshalOptions
}{
	{"DiscardUnknown", proto.UnmarshalOptions{DiscardUnknown: true}},
	{"Merge", proto.UnmarshalOptions{Merge: true}},
	{"AllowPartial", proto.UnmarshalOptions{AllowPartial: true}},
	{"RecursionLimit=3", proto.UnmarshalOptions{RecursionLimit: 3}},
	{"DiscardUnknown+Merge+RecursionLimit=50", proto.UnmarshalOptions{DiscardUnknown: true, Merge: true, RecursionLimit: 50}},
}

var hostileVarints = [][]byte{
	{0x00}, {0x01}, {0x7f}, {0x80, 0x01},
	{0xff, 0xff, 0xff, 0xff, 0x07},       // 2^31-1
	{0x80, 0x80, 0x80, 0x80, 0x08},       // 2^31
	{0xff, 0xff, 0xff, 0xff, 0x0f},       // 2^32-1
	{0x80, 0x80, 0x80, 0x80, 0x10},       // 2^32
	{0xff, 0xff, 0xff, 0xff, 0xff, 0xff, 0xff, 0xff, 0x7f},       // 2^63-1
	{0x80, 0x80, 0x80, 0x80, 0x80, 0x80, 0x80, 0x80, 0x80, 0x01}, // 2^63
	{0xff, 0xff, 0xff, 0xff, 0xff, 0xff, 0xff, 0xff, 0xff, 0x01}, // 2^64-1
	{0xff, 0xff, 0xff, 0xff, 0xff, 0xff, 0xff, 0xff, 0xff, 0x7f}, // overflowing 10th byte
	{0x80, 0x80, 0x80, 0x80, 0x80, 0x80, 0x80, 0x80, 0x80, 0x80, 0x01}, // 11 bytes
	{0xfe, 0xff, 0xff, 0xff, 0xff, 0xff, 0xff, 0xff, 0xff, 0x01}, // -2 as int
}

func mutate(rt *rapid.T, ctx *Ctx, t *model.Type, b []byte, labels map[string]int) []byte {
	b = append([]byte{}, b...)
	n := rapid.IntRange(1, 3).Draw(rt, "nmut")
	for i := 0; i < n; i++ {
		switch rapid.IntRange(0, 10).Draw(rt, "mutator") {
		case 10:
			// a record whose tag is padded (up to ten bytes) and whose next varint -
			// value or length - is a run of continuation bytes, appended so that it
			// may run to the very end of the input however long that run is
			fds := t.Desc.Fields()
			if fds.Len() > 0 {
				labels["mut:padded-tag-unterminated-varint"]++
				fd := fds.Get(rapid.IntRange(0, fds.Len()-1).Draw(rt, "padfield"))
				num := uint64(fd.Number())
				if rapid.IntRange(0, 2).Draw(rt, "padunknown") == 0 {
					num = uint64(rapid.SampledFrom([]int{1, 15, 16, 999, 2048, 100000, 536870911}).Draw(rt, "padnum"))
				}
				tag := num<<3 | uint64(rapid.SampledFrom([]int{0, 0, 2, 2, 1, 5}).Draw(rt, "padtyp"))
				b = appendPadded(b, tag, rapid.IntRange(protowire.SizeVarint(tag), 10).Draw(rt, "padwidth"))
				fill := byte(rapid.SampledFrom([]int{0xff, 0x80, 0x81}).Draw(rt, "padfill"))
				for j, run := 0, rapid.IntRange(0, 24).Draw(rt, "padrun"); j < run; j++ {
					b = append(b, fill)
				}
				if rapid.IntRange(0, 2).Draw(rt, "padend") == 0 {
					b = append(b, 0x01)
					b = append(b, rapid.SliceOfN(rapid.Byte(), 0, 20).Draw(rt, "padtail")...)
				}
			}
		case 9:
			// the same record many times over (many chunks of one field)
			if recs, ok := model.SplitRecords(b); ok && len(recs) > 0 {
				labels["mut:repeat-record"]++
				r := recs[rapid.IntRange(0, len(recs)-1).Draw(rt, "rec")]
				k := rapid.IntRange(8, 64).Draw(rt, "times")
				for j := 0; j < k && len(b)+len(r.Raw) < 60000; j++ {
					b = append(b, r.Raw...)
				}
			}
		case 0:
			labels["mut:truncate"]++
			b = b[:rapid.IntRange(0, len(b)).Draw(rt, "trunc")]
		case 1:
			if len(b) > 0 {
				labels["mut:bitflip"]++
				p := rapid.IntRange(0, len(b)-1).Draw(rt, "pos")
				b[p] ^= 1 << uint(rapid.IntRange(0, 7).Draw(rt, "bit"))
			}
		case 2:
			labels["mut:splice"]++
			cfg := ctx.streamCfg(true, false)
			o := cfg.GenStream(rt, t.Desc, 0)
			i1 := rapid.IntRange(0, len(b)).Draw(rt, "i")
			j := rapid.IntRange(0, len(o)).Draw(rt, "j")
			b = append(append([]byte{}, b[:i1]...), o[j:]...)
		case 3:
			labels["mut:hostile-varint-overwrite"]++
			h := drawHostile(rt, "hostile")
			p := rapid.IntRange(0, len(b)).Draw(rt, "pos")
			end := p + rapid.IntRange(0, 2).Draw(rt, "eat")
			if end > len(b) {
				end = len(b)
			}
			b = append(append(append([]byte{}, b[:p]...), h...), b[end:]...)
		case 4:
			if len(b) > 0 {
				labels["mut:wiretype"]++
				p := rapid.IntRange(0, len(b)-1).Draw(rt, "pos")
				b[p] = b[p]&^7 | byte(rapid.IntRange(0, 7).Draw(rt, "wt"))
			}
		case 5:
			labels["mut:stray-endgroup"]++
			p := rapid.IntRange(0, len(b)).Draw(rt, "pos")
			tag := protowire.AppendTag(nil, protowire.Number(rapid.IntRange(1, 40).Draw(rt, "num")), protowire.EndGroupType)
			b = append(append(append([]byte{}, b[:p]...), tag...), b[p:]...)
		case 6:
			// wrap k levels deeper in some message-typed field of t
			var mf []protoreflect.FieldDescriptor
			for i := 0; i < t.Desc.Fields().Len(); i++ {
				if fd := t.Desc.Fields().Get(i); fd.Message() != nil && !fd.IsMap() {
					mf = append(mf, fd)
				}
			}
			if len(mf) > 0 {
				labels["mut:wrap-deeper"]++
				fd := mf[rapid.IntRange(0, len(mf)-1).Draw(rt, "wrapfield")]
				k := rapid.IntRange(1, 40).Draw(rt, "wrapdepth")
				for j := 0; j < k && len(b) < 60000; j++ {
					b = protowire.AppendBytes(protowire.AppendTag(nil, fd.Number(), protowire.BytesType), b)
				}
			}
		case 7:
			labels["mut:random-bytes"]++
			b = rapid.SliceOfN(rapid.Byte(), 0, 40).Draw(rt, "random")
		case 8:
			// length-prefix attack: known bytes-typed field with a hostile length and a short body
			fds := t.Desc.Fields()
			if fds.Len() > 0 {
				labels["mut:hostile-length-record"]++
				fd := fds.Get(rapid.IntRange(0, fds.Len()-1).Draw(rt, "lenfield"))
				num := fd.Number()
				if rapid.Bool().Draw(rt, "unknownfield") {
					// the same attack on a field number the message does not declare (the skip path)
					labels["mut:hostile-length-unknown-field"]++
					num = protowire.Number(rapid.SampledFrom([]int{1, 2, 15, 16, 999, 2047, 2048, 100000, 536870911}).Draw(rt, "unknum"))
					for t.Desc.Fields().ByNumber(num) != nil {
						num++
					}
				}
				rec := protowire.AppendTag(nil, num, protowire.BytesType)
				rec = append(rec, drawHostile(rt, "hostilelen")...)
				rec = append(rec, rapid.SliceOfN(rapid.Byte(), 0, 6).Draw(rt, "body")...)
				if rapid.Bool().Draw(rt, "ingroup") {
					// the same attack inside an (unknown) group, possibly nested
					labels["mut:hostile-length-inside-group"]++
					for g, n := 0, rapid.IntRange(1, 3).Draw(rt, "gdepth"); g < n; g++ {
						num := protowire.Number(rapid.IntRange(1, 2000).Draw(rt, "gnum"))
						rec = append(protowire.AppendTag(nil, num, protowire.StartGroupType), rec...)
						if rapid.Bool().Draw(rt, "closed") {
							rec = protowire.AppendTag(rec, num, protowire.EndGroupType)
						}
					}
				}
				p := rapid.IntRange(0, len(b)).Draw(rt, "pos")
				b = append(append(append([]byte{}, b[:p]...), rec...), b[p:]...)
			}
		}
	}
	if len(b) > 65536 {
		b = b[:65536]
	}
	return b
}

func runC06(ctx *Ctx) {
	if os.Getenv("VERIF_CHILD") == "depth" {
		depthChild()
		return
	}
	n := ctx.N(6000, 80000)
	for _, t := range ctx.types() {
		t := t
		ctx.CheckRapid(string(t.Name), n, func(rt *rapid.T) *Case {
			cfg := ctx.streamCfg(true, false)
			if rapid.IntRange(0, 7).Draw(rt, "listburst") == 0 {
				cfg.ListBurst = 64
			}
			b := cfg.GenStream(rt, t.Desc, 0)
			orig := append([]byte{}, b...)
			labels := map[string]int{}
			b = mutate(rt, ctx, t, b, labels)
			ctx.MergeLabels(labels)
			return &Case{Sub: "mutate", Type: string(t.Name), Bytes: hexs(b), Bytes2: hexs(orig)}
		}, func(c *Case) error {
			err := checkDecodeTotal(ctx, c)
			if h, ok := err.(hangErr); ok {
				// a call that never returns cannot be shrunk (every attempt costs the
				// full watchdog, and its goroutines keep spinning): report the case as
				// it is and end this shard, so that the verdict arrives in time
				ctx.Violation(c, string(h))
				os.Stdout.Sync()
				os.Exit(1)
			}
			return err
		})
	}
	runDepthArm(ctx)
}

var maxStructCache = map[protoreflect.FullName]uintptr{}

// maxStruct returns the largest Go struct size among message types reachable
// from t (generated types; others counted with a flat 256 bytes).
func maxStruct(t *model.Type) uintptr {
	if v, ok := maxStructCache[t.Name]; ok {
		return v
	}
	var max uintptr = 256
	seen := map[protoreflect.FullName]bool{}
	var walk func(md protoreflect.MessageDescriptor)
	walk = func(md protoreflect.MessageDescriptor) {
		if seen[md.FullName()] {
			return
		}
		seen[md.FullName()] = true
		if tt := model.TypeByName(string(md.FullName())); tt != nil {
			if s := tt.GoType.Elem().Size(); s > max {
				max = s
			}
		}
		for i := 0; i < md.Fields().Len(); i++ {
			fd := md.Fields().Get(i)
			if fd.IsMap() {
				if m := fd.MapValue().Message(); m != nil {
					walk(m)
				}
			} else if m := fd.Message(); m != nil {
				walk(m)
			}
		}
	}
	walk(t.Desc)
	maxStructCache[t.Name] = max
	return max
}

type decodeResult struct {
	err      error
	panicked interface{}
	stack    string
	alloc    uint64
	p        proto.Message
}

// decodeGuarded runs Unmarshal under a watchdog with panic capture and an
// allocation measurement.
func decodeGuarded(t *model.Type, b []byte, opts proto.UnmarshalOptions, measure bool) (res decodeResult, hung bool) {
	done := make(chan decodeResult, 1)
	go func() {
		var r decodeResult
		defer func() {
			if p := recover(); p != nil {
				r.panicked = p
				buf := make([]byte, 4096)
				r.stack = string(buf[:runtime.Stack(buf, false)])
			}
			done <- r
		}()
		r.p = t.New()
		var m0, m1 runtime.MemStats
		if measure {
			runtime.ReadMemStats(&m0)
		}
		r.err = opts.Unmarshal(b, r.p)
		if measure {
			runtime.ReadMemStats(&m1)
			r.alloc = m1.TotalAlloc - m0.TotalAlloc
		}
	}()
	select {
	case r := <-done:
		return r, false
	case <-time.After(20 * time.Second):
		return decodeResult{}, true
	}
}

// hangErr is the verdict "the call does not return".
type hangErr string

func (h hangErr) Error() string { return string(h) }

// decodeGuardedInto is decodeGuarded for an existing object (proto.Unmarshal resets it first).
func decodeGuardedInto(p proto.Message, b []byte) (res decodeResult, hung bool) {
	done := make(chan decodeResult, 1)
	go func() {
		var r decodeResult
		defer func() {
			if x := recover(); x != nil {
				r.panicked = x
				buf := make([]byte, 4096)
				r.stack = string(buf[:runtime.Stack(buf, false)])
			}
			done <- r
		}()
		r.p = p
		r.err = proto.Unmarshal(b, p)
	}()
	select {
	case r := <-done:
		return r, false
	case <-time.After(20 * time.Second):
		return decodeResult{}, true
	}
}

func checkDecodeTotal(ctx *Ctx, c *Case) error {
	t, err := mustType(c.Type)
	if err != nil {
		return err
	}
	b := unhex(c.Bytes)
	pristine := append([]byte{}, b...)
	measure := digest(c.Bytes)%4 == 0 // ReadMemStats stops the world: sample a quarter
	res, hung := decodeGuarded(t, b, proto.UnmarshalOptions{}, measure)
	if hung {
		// re-run alone with a 10x budget before reporting
		done := make(chan struct{})
		go func() { _ = proto.Unmarshal(b, t.New()); close(done) }()
		select {
		case <-done:
			ctx.Label("slow call (finished within 10x watchdog, not reported)")
			return nil
		case <-time.After(200 * time.Second):
			return hangErr(fmt.Sprintf("Unmarshal did not return within 220 s on %d bytes", len(b)))
		}
	}
	if res.panicked != nil {
		return fmt.Errorf("Unmarshal panicked: %v\n%s", res.panicked, trunc(res.stack, 1200))
	}
	if !bytes.Equal(b, pristine) {
		return fmt.Errorf("Unmarshal modified its input")
	}
	if measure {
		budget := uint64(64<<10) + 4*uint64(len(b)+1)*uint64(maxStruct(t)+64)
		if res.alloc > budget {
			return fmt.Errorf("Unmarshal allocated %d bytes for a %d-byte input (budget %d)", res.alloc, len(b), budget)
		}
		ctx.Label("allocation measured")
	}
	// the same input under another option set (chosen by the input): no panic,
	// no hang, input untouched, and an accepted message is usable
	v := unmarshalVariants[digest(c.Bytes, "variant")%uint64(len(unmarshalVariants))]
	vres, vhung := decodeGuarded(t, b, v.opts, false)
	switch {
	case vhung:
		done := make(chan struct{})
		go func() { _ = v.opts.Unmarshal(b, t.New()); close(done) }()
		select {
		case <-done:
			ctx.Label("slow call (finished within 10x watchdog, not reported)")
		case <-time.After(200 * time.Second):
			return hangErr(fmt.Sprintf("Unmarshal with %s did not return within 220 s on %d bytes", v.name, len(b)))
		}
	case vres.panicked != nil:
		return fmt.Errorf("Unmarshal with options %s panicked: %v\n%s", v.name, vres.panicked, trunc(vres.stack, 1200))
	case !bytes.Equal(b, pristine):
		return fmt.Errorf("Unmarshal with options %s modified its input", v.name)
	case vres.err == nil:
		if err := usable(ctx, t, b, vres.p); err != nil {
			return fmt.Errorf("message accepted by Unmarshal with options %s is not usable afterwards: %v", v.name, err)
		}
		ctx.Label("variant " + v.name + ": accepted")
	default:
		ctx.Label("variant " + v.name + ": rejected")
	}
	// the object that just went through a (possibly failed) decode is reused for
	// the well-typed stream the input was derived from: nothing a call leaves
	// behind - in the object or in package-level scratch state - may show
	reuse := func() error {
		if c.Bytes2 == "" && c.Sub != "mutate" {
			return nil
		}
		orig := unhex(c.Bytes2)
		if dref, derr := decodeD(t, orig); derr == nil && res.p != nil {
			rres, rhung := decodeGuardedInto(res.p, orig)
			switch {
			case rhung:
				ctx.Label("slow call on reuse (not reported)")
			case rres.panicked != nil:
				return fmt.Errorf("Unmarshal of a well-typed stream into the object used for the previous input panicked: %v\n%s", rres.panicked, trunc(rres.stack, 1200))
			case rres.err != nil:
				return fmt.Errorf("after decoding the input (result: %v) the same object rejects a well-typed stream: %v", res.err, rres.err)
			default:
				if got, want := canonI(res.p), canonD(dref.ProtoReflect()); got != want {
					return fmt.Errorf("after decoding the input (result: %v) the same object decodes a well-typed stream to another value: %s", res.err, diffStr(got, want))
				}
				ctx.Label("object reused after the input")
			}
		}
		return nil
	}
	if res.err != nil {
		ctx.Label("rejected")
		if len(b) > 2 {
			ctx.Nontrivial(c.Type, c.Bytes)
		}
		return reuse()
	}
	ctx.Label("accepted")
	p := res.p
	// an accepted message must be usable
	if err := usable(ctx, t, b, p); err != nil {
		return fmt.Errorf("message accepted by Unmarshal is not usable afterwards: %v", err)
	}
	if canonI(p) != "{}" {
		ctx.Nontrivial(c.Type, c.Bytes)
	}
	return reuse()
}

// usable exercises exactly the post-conditions the property states for an
// accepted message: it can be sized, marshalled (both modes), compared (with
// itself, with an independent decoding of the same bytes, and with other
// accepted messages obtained from one-bit variants of the input) and ranged
// over (deep Get/Range walk) without panicking. String(), protojson and Clone
// are exercised too, but a panic there is only counted (observed, not
// asserted): the statement does not list them.
func usable(ctx *Ctx, t *model.Type, b []byte, p proto.Message) (err error) {
	step := "start"
	defer func() {
		if r := recover(); r != nil {
			buf := make([]byte, 2048)
			err = fmt.Errorf("%s panicked: %v\n%s", step, r, buf[:runtime.Stack(buf, false)])
		}
	}()
	step = "proto.Size"
	sz := proto.Size(p)
	step = "proto.Marshal"
	out, merr := proto.Marshal(p)
	if merr == nil && len(out) != sz {
		return fmt.Errorf("Size=%d but Marshal produced %d bytes", sz, len(out))
	}
	step = "deterministic Marshal"
	if _, e := det.Marshal(p); e != nil && merr == nil {
		return fmt.Errorf("deterministic Marshal fails (%v) where default succeeds", e)
	}
	step = "proto.Equal with itself"
	_ = proto.Equal(p, p)
	step = "proto.Equal with a second decoding of the same bytes"
	q := t.New()
	if e := proto.Unmarshal(b, q); e == nil {
		_ = proto.Equal(p, q)
	}
	step = "deep Get/Range walk"
	_ = canonP(p)
	p.ProtoReflect().Range(func(protoreflect.FieldDescriptor, protoreflect.Value) bool { return true })
	// compare with other accepted messages: one-bit variants of the input tail
	for i := len(b) - 1; i >= 0 && i >= len(b)-6; i-- {
		v := append([]byte{}, b...)
		v[i] ^= 1
		q := t.New()
		if e := proto.Unmarshal(v, q); e == nil {
			step = fmt.Sprintf("proto.Equal with the accepted message decoded from the input with bit 0 of byte %d flipped", i)
			_ = proto.Equal(p, q)
			_ = proto.Equal(q, p)
		}
	}
	observe := func(name string, f func()) {
		defer func() {
			if r := recover(); r != nil && ctx != nil {
				ctx.Label("observed, not asserted: " + name + " panics on an accepted message")
			}
		}()
		f()
	}
	observe("String()", func() {
		if s, ok := p.(fmt.Stringer); ok {
			_ = s.String()
		}
	})
	observe("protojson.Marshal", func() { _, _ = protojson.Marshal(p) })
	observe("proto.Clone", func() { _ = proto.Clone(p) })
	return nil
}

// ---- depth arm ---------------------------------------------------------

// cyclePath finds fields leading from md back to md: a list of (field number,
// isMap) hops; nil if md is not recursive.
type hop struct {
	num   protowire.Number
	isMap bool
}

// cyclePaths returns one cycle md -> ... -> md per message-typed field of md
// that lies on a cycle (the cycle starts with that field), so that every
// decode site of a recursive type is the repeating hop of some deep chain.
func cyclePaths(md protoreflect.MessageDescriptor) [][]hop {
	var out [][]hop
	fds := md.Fields()
	for i := 0; i < fds.Len(); i++ {
		fd := fds.Get(i)
		to := fd.Message()
		isMap := fd.IsMap()
		if isMap {
			to = fd.MapValue().Message()
		}
		if to == nil {
			continue
		}
		first := hop{fd.Number(), isMap}
		if to.FullName() == md.FullName() {
			out = append(out, []hop{first})
			continue
		}
		// shortest way back from `to` to md
		type node struct {
			md   protoreflect.MessageDescriptor
			path []hop
		}
		seen := map[protoreflect.FullName]bool{to.FullName(): true}
		queue := []node{{to, []hop{first}}}
		found := false
		for len(queue) > 0 && !found {
			cur := queue[0]
			queue = queue[1:]
			cf := cur.md.Fields()
			for j := 0; j < cf.Len() && !found; j++ {
				f2 := cf.Get(j)
				t2 := f2.Message()
				m2 := f2.IsMap()
				if m2 {
					t2 = f2.MapValue().Message()
				}
				if t2 == nil {
					continue
				}
				p := append(append([]hop{}, cur.path...), hop{f2.Number(), m2})
				if t2.FullName() == md.FullName() {
					out = append(out, p)
					found = true
				} else if !seen[t2.FullName()] {
					seen[t2.FullName()] = true
					queue = append(queue, node{t2, p})
				}
			}
		}
	}
	return out
}

func cyclePath(md protoreflect.MessageDescriptor) []hop {
	type node struct {
		md   protoreflect.MessageDescriptor
		path []hop
	}
	seen := map[protoreflect.FullName]bool{}
	queue := []node{{md, nil}}
	for len(queue) > 0 {
		cur := queue[0]
		queue = queue[1:]
		fds := cur.md.Fields()
		for i := 0; i < fds.Len(); i++ {
			fd := fds.Get(i)
			to := fd.Message()
			isMap := fd.IsMap()
			if isMap {
				to = fd.MapValue().Message()
			}
			if to == nil {
				continue
			}
			p := append(append([]hop{}, cur.path...), hop{fd.Number(), isMap})
			if to.FullName() == md.FullName() {
				return p
			}
			if !seen[to.FullName()] {
				seen[to.FullName()] = true
				queue = append(queue, node{to, p})
			}
		}
	}
	return nil
}

// nestedPayload builds an encoding of md whose innermost message sits
// `levels` message levels below the top-level message, following path
// cyclically.
func nestedPayload(path []hop, levels int) []byte { return widePayload(path, levels, 1) }

// widePayload is nestedPayload with width-1 empty siblings in front of the
// nested record at every level: siblings do not nest, so they must not cost
// recursion budget.
func widePayload(path []hop, levels, width int) []byte {
	rec := func(h hop, inner []byte) []byte {
		if h.isMap {
			entry := protowire.AppendBytes(protowire.AppendTag(nil, 2, protowire.BytesType), inner)
			return protowire.AppendBytes(protowire.AppendTag(nil, h.num, protowire.BytesType), entry)
		}
		return protowire.AppendBytes(protowire.AppendTag(nil, h.num, protowire.BytesType), inner)
	}
	var b []byte
	for i := levels - 1; i >= 0; i-- {
		h := path[i%len(path)]
		var lvl []byte
		for w := 1; w < width; w++ {
			lvl = append(lvl, rec(h, nil)...)
		}
		b = append(lvl, rec(h, b)...)
	}
	return b
}

type depthCase struct {
	Type   string `json:"type"`
	Levels int    `json:"levels"`
	Limit  int    `json:"limit"`
	Hops   []int  `json:"hops,omitempty"` // explicit walk (field numbers) instead of the cyclic path
	Width  int    `json:"width,omitempty"` // > 1: that many records per level (empty siblings before the nested one)
	Cycle  int    `json:"cycle,omitempty"` // > 0: use the (Cycle-1)-th cycle of cyclePaths instead of the first one found
	Overrun int   `json:"overrun,omitempty"` // > 0: field number of a map: Levels entries whose key (negative Limit) or value length claims the rest of the input
	Groups int    `json:"groups,omitempty"` // > 0: that many nested start-group tags of an undeclared field number (closed again), holding one varint
	Alloc  int    `json:"alloc,omitempty"` // > 0: allocation growth between Levels and 2*Levels with an unknown record per level (1 varint before, 2 varint after, 3 bytes before, 4 bytes after the child)
}

// walkPayload nests empty messages along an explicit walk of message-typed
// fields starting at md (map fields are entered through their value).
func walkPayload(md protoreflect.MessageDescriptor, hops []int, width int) ([]byte, bool) {
	var chain []hop
	cur := md
	for _, n := range hops {
		fd := cur.Fields().ByNumber(protoreflect.FieldNumber(n))
		if fd == nil {
			return nil, false
		}
		switch {
		case fd.IsMap() && fd.MapValue().Message() != nil:
			chain = append(chain, hop{fd.Number(), true})
			cur = fd.MapValue().Message()
		case fd.Message() != nil && !fd.IsMap():
			chain = append(chain, hop{fd.Number(), false})
			cur = fd.Message()
		default:
			return nil, false
		}
	}
	if width < 1 {
		width = 1
	}
	return widePayload(chain, len(chain), width), true
}

// messageWalks enumerates every walk of length 1 and 2 through message-typed
// fields of md (each decode site of the generated unmarshal code is the last
// hop of some walk).
func messageWalks(md protoreflect.MessageDescriptor) [][]int {
	var out [][]int
	step := func(m protoreflect.MessageDescriptor) []protoreflect.FieldDescriptor {
		var fs []protoreflect.FieldDescriptor
		for i := 0; i < m.Fields().Len(); i++ {
			fd := m.Fields().Get(i)
			if (fd.IsMap() && fd.MapValue().Message() != nil) || (!fd.IsMap() && fd.Message() != nil) {
				fs = append(fs, fd)
			}
		}
		return fs
	}
	target := func(fd protoreflect.FieldDescriptor) protoreflect.MessageDescriptor {
		if fd.IsMap() {
			return fd.MapValue().Message()
		}
		return fd.Message()
	}
	for _, f1 := range step(md) {
		out = append(out, []int{int(f1.Number())})
		for _, f2 := range step(target(f1)) {
			out = append(out, []int{int(f1.Number()), int(f2.Number())})
		}
	}
	return out
}

func runDepthArm(ctx *Ctx) {
	var cases []depthCase
	i := 0
	// every message-typed decode site: walks of length 1 and 2 from every type,
	// with the limit exactly exhausted (reject) and one above (accept)
	for ti, t := range model.TypesNoBulk() {
		if (ctx.OnlyFresh && !t.Fresh) || ti%ctx.NShards != ctx.Shard {
			continue
		}
		// map fields whose key or value is length-delimited: entries that claim the rest of the input
		for i := 0; i < t.Desc.Fields().Len(); i++ {
			fd := t.Desc.Fields().Get(i)
			if !fd.IsMap() {
				continue
			}
			if k := fd.MapValue().Kind(); k == protoreflect.StringKind || k == protoreflect.BytesKind || k == protoreflect.MessageKind {
				cases = append(cases, depthCase{Type: string(t.Name), Overrun: int(fd.Number()), Levels: 1500})
			}
			if fd.MapKey().Kind() == protoreflect.StringKind {
				cases = append(cases, depthCase{Type: string(t.Name), Overrun: int(fd.Number()), Levels: 1500, Limit: -1})
			}
		}
		for _, w := range messageWalks(t.Desc) {
			cases = append(cases, depthCase{Type: string(t.Name), Hops: w, Limit: len(w)}, depthCase{Type: string(t.Name), Hops: w, Limit: len(w) + 1})
			// several records of the field at every level: the limit is still exactly sufficient
			cases = append(cases, depthCase{Type: string(t.Name), Hops: w, Limit: len(w) + 1, Width: 3}, depthCase{Type: string(t.Name), Hops: w, Limit: len(w), Width: 3})
		}
	}
	for ti, t := range model.TypesNoBulk() {
		if (ctx.OnlyFresh && !t.Fresh) || ti%ctx.NShards != ctx.Shard || (ctx.Quick() && (ti/ctx.NShards+int(ctx.Seed))%4 != 0) {
			continue
		}
		for _, n := range []int{100, 9999, 10000, 10001, 10002, 10003, 20000} {
			cases = append(cases, depthCase{Type: string(t.Name), Groups: n})
		}
	}
	for _, t := range model.TypesNoBulk() {
		if ctx.OnlyFresh && !t.Fresh {
			continue
		}
		if cyclePath(t.Desc) == nil {
			continue
		}
		i++
		if i%ctx.NShards != ctx.Shard {
			continue
		}
		for r := 1; r <= 8; r++ {
			for d := r - 2; d <= r+2; d++ {
				if d >= 0 {
					cases = append(cases, depthCase{Type: string(t.Name), Levels: d, Limit: r})
				}
			}
		}
		for r := 2; r <= 6; r += 2 {
			cases = append(cases, depthCase{Type: string(t.Name), Levels: r - 1, Limit: r, Width: 5}, depthCase{Type: string(t.Name), Levels: r, Limit: r, Width: 5})
		}
		cases = append(cases, depthCase{Type: string(t.Name), Levels: 2, Limit: 0, Width: 10050}) // > 10000 siblings under the default limit
		for a := 1; a <= 4; a++ {
			cases = append(cases, depthCase{Type: string(t.Name), Levels: 1500, Alloc: a})
		}
		// every cycle of the type (one per message-typed field on a cycle), 60 levels
		// with TWO records of the field at every level: work that is redone per
		// occurrence multiplies per level and never finishes
		for ci := range cyclePaths(t.Desc) {
			cases = append(cases, depthCase{Type: string(t.Name), Levels: 60, Width: 2, Cycle: ci + 1})
		}
		for _, d := range []int{9990, 9998, 9999, 10000, 10001, 10010} {
			cases = append(cases, depthCase{Type: string(t.Name), Levels: d, Limit: 0})
		}
		if !ctx.Quick() {
			cases = append(cases, depthCase{Type: string(t.Name), Levels: 50000}, depthCase{Type: string(t.Name), Levels: 20000, Limit: 30000})
		}
	}
	if len(cases) == 0 {
		return
	}
	in, _ := json.Marshal(cases)
	cmd := exec.Command(os.Args[0], "-test.run", "^TestVerif$", "-test.timeout", "600s")
	cmd.Env = append(os.Environ(), "VERIF_CHILD=depth", "VERIF_OUT=", "VERIF_REPLAY=")
	cmd.Stdin = bytes.NewReader(in)
	var out bytes.Buffer
	cmd.Stdout = &out
	cmd.Stderr = &out
	err := cmd.Run()
	sc := bufio.NewScanner(&out)
	sc.Buffer(make([]byte, 1<<20), 1<<20)
	var current string
	finished := false
	for sc.Scan() {
		ln := sc.Text()
		switch {
		case strings.HasPrefix(ln, "DEPTH-BEGIN "):
			current = strings.TrimPrefix(ln, "DEPTH-BEGIN ")
		case strings.HasPrefix(ln, "DEPTH-OK "):
			ctx.Eval(1)
			f := strings.Fields(ln)
			ctx.Nontrivial("depth", f[1], f[2], f[3])
			ctx.Label("depth arm: " + f[4])
			current = ""
		case strings.HasPrefix(ln, "DEPTH-BAD "):
			ctx.Eval(1)
			var dc depthCase
			parts := strings.SplitN(strings.TrimPrefix(ln, "DEPTH-BAD "), " :: ", 2)
			_ = json.Unmarshal([]byte(parts[0]), &dc)
			ctx.Violation(&Case{Sub: "depth", Type: dc.Type, Args: map[string]string{"levels": strconv.Itoa(dc.Levels), "limit": strconv.Itoa(dc.Limit), "hops": hopsStr(dc.Hops), "width": strconv.Itoa(dc.Width), "alloc": strconv.Itoa(dc.Alloc), "cycle": strconv.Itoa(dc.Cycle), "overrun": strconv.Itoa(dc.Overrun), "groups": strconv.Itoa(dc.Groups)}}, parts[1])
			ctx.T.Fail()
			current = ""
		case ln == "DEPTH-DONE":
			finished = true
		}
	}
	if !finished {
		// the child died: the case it announced last is the witness
		var dc depthCase
		if current != "" && json.Unmarshal([]byte(current), &dc) == nil {
			ctx.Violation(&Case{Sub: "depth", Type: dc.Type, Args: map[string]string{"levels": strconv.Itoa(dc.Levels), "limit": strconv.Itoa(dc.Limit), "hops": hopsStr(dc.Hops), "width": strconv.Itoa(dc.Width), "alloc": strconv.Itoa(dc.Alloc), "cycle": strconv.Itoa(dc.Cycle), "overrun": strconv.Itoa(dc.Overrun), "groups": strconv.Itoa(dc.Groups)}},
				fmt.Sprintf("child process died while decoding nesting depth %d with RecursionLimit %d (err=%v): %s", dc.Levels, dc.Limit, err, trunc(tailStr(out.String(), 600), 600)))
			ctx.T.Fail()
		} else {
			fmt.Printf("HARNESS-ERROR depth child failed before announcing a case: %v\n%s\n", err, trunc(out.String(), 2000))
			ctx.T.Fail()
		}
	}
}

func tailStr(s string, n int) string {
	if len(s) > n {
		return s[len(s)-n:]
	}
	return s
}

// depthChild runs in a separate process: announces each case before running
// it so that a stack overflow still leaves a witness.
func depthChild() {
	var cases []depthCase
	if err := json.NewDecoder(os.Stdin).Decode(&cases); err != nil {
		fmt.Println("HARNESS-ERROR depth child: bad input", err)
		return
	}
	for _, dc := range cases {
		js, _ := json.Marshal(dc)
		fmt.Printf("DEPTH-BEGIN %s\n", js)
		verdict, err := checkDepth(dc)
		if err != nil {
			fmt.Printf("DEPTH-BAD %s :: %s\n", js, strings.ReplaceAll(err.Error(), "\n", " | "))
		} else {
			fmt.Printf("DEPTH-OK %s %d/%s/w%d/a%d/c%d/o%d/g%d %d %s\n", dc.Type, dc.Levels, hopsStr(dc.Hops), dc.Width, dc.Alloc, dc.Cycle, dc.Overrun, dc.Groups, dc.Limit, verdict)
		}
	}
	fmt.Println("DEPTH-DONE")
}

// allocGrowth decodes a chain of n and of 2n levels that carries an unknown
// record at every level (before or after the nested child) and compares the
// bytes allocated: proportional to the input means about twice as much for
// twice the input; a per-level cost that depends on the remaining input makes
// it four times.
func allocGrowth(t *model.Type, path []hop, n, where int) (string, error) {
	build := func(levels int) []byte {
		unk := protowire.AppendVarint(protowire.AppendTag(nil, 19500, protowire.VarintType), 1)
		if where >= 3 {
			unk = protowire.AppendBytes(protowire.AppendTag(nil, 19501, protowire.BytesType), []byte("unknown"))
		}
		var b []byte
		for i := levels - 1; i >= 0; i-- {
			h := path[i%len(path)]
			var rec []byte
			if h.isMap {
				entry := protowire.AppendBytes(protowire.AppendTag(nil, 2, protowire.BytesType), b)
				rec = protowire.AppendBytes(protowire.AppendTag(nil, h.num, protowire.BytesType), entry)
			} else {
				rec = protowire.AppendBytes(protowire.AppendTag(nil, h.num, protowire.BytesType), b)
			}
			if where%2 == 1 {
				b = append(append([]byte{}, unk...), rec...)
			} else {
				b = append(rec, unk...)
			}
		}
		return b
	}
	measure := func(b []byte) (uint64, error) {
		runtime.GC()
		var m0, m1 runtime.MemStats
		p := t.New()
		runtime.ReadMemStats(&m0)
		err := proto.Unmarshal(b, p)
		runtime.ReadMemStats(&m1)
		runtime.KeepAlive(p)
		return m1.TotalAlloc - m0.TotalAlloc, err
	}
	b1, b2 := build(n), build(2*n)
	a1, e1 := measure(b1)
	a2, e2 := measure(b2)
	if e1 != nil || e2 != nil {
		return "", fmt.Errorf("nesting %d / %d levels with an unknown record at every level: Unmarshal failed: %v / %v", n, 2*n, e1, e2)
	}
	if a1 == 0 {
		a1 = 1
	}
	ratio := float64(a2) / float64(a1)
	// linear behaviour gives ~2.0 (the inputs are %d and %d bytes); 3.0 leaves room
	// for size-class rounding, and small totals are not judged at all
	if ratio > 3.0 && a2 > 8<<20 {
		return "", fmt.Errorf("allocation out of proportion to the input: %d bytes of input (%d levels) allocate %d bytes, %d bytes of input (%d levels) allocate %d bytes: %.2f times as much for twice the input", len(b1), n, a1, len(b2), 2*n, a2, ratio)
	}
	return fmt.Sprintf("alloc-growth-x%.1f", ratio), nil
}

// overrunInput builds n entries of map field fd in which the length of the key
// (which == 1) or of the value (which == 2) claims every byte up to the end of
// the whole input. No entry is well-formed: a decoder may reject the input, and
// if it accepts it must not copy or re-parse the rest of the input per entry.
func overrunInput(fd protoreflect.FieldDescriptor, n, which int) []byte {
	pad4 := func(b []byte, v uint64) []byte {
		return append(b, byte(v&0x7f)|0x80, byte((v>>7)&0x7f)|0x80, byte((v>>14)&0x7f)|0x80, byte((v>>21)&0x7f))
	}
	entry := func(claim int) []byte {
		var e []byte
		if which == 2 {
			// a valid key first (default key: nothing at all is valid too), then the value
			e = protowire.AppendTag(e, 2, protowire.BytesType)
			return pad4(e, uint64(claim))
		}
		e = protowire.AppendTag(e, 1, protowire.BytesType)
		return pad4(e, uint64(claim))
	}
	rec := func(claim int) []byte {
		return protowire.AppendBytes(protowire.AppendTag(nil, fd.Number(), protowire.BytesType), entry(claim))
	}
	recSize := len(rec(0))
	size := n * recSize
	var b []byte
	for i := 0; i < n; i++ {
		b = append(b, rec(size-(i+1)*recSize)...)
	}
	return b
}

// checkDeepGroups: n nested groups of a field number the type does not declare.
// The reference decoder follows protowire's limit; whatever the generated
// decoder accepts must be usable afterwards (Equal with a slightly different
// message parses the unknown fields of both).
func checkDeepGroups(t *model.Type, n int) (string, error) {
	num := protowire.Number(19000 + n%7)
	build := func(v uint64) []byte {
		var b []byte
		for i := 0; i < n; i++ {
			b = protowire.AppendTag(b, num, protowire.StartGroupType)
		}
		b = protowire.AppendVarint(protowire.AppendTag(b, 1, protowire.VarintType), v)
		for i := 0; i < n; i++ {
			b = protowire.AppendTag(b, num, protowire.EndGroupType)
		}
		return b
	}
	in, in2 := build(1), build(2)
	derr := proto.Unmarshal(in, t.NewD())
	res, hung := decodeGuarded(t, in, proto.UnmarshalOptions{}, false)
	if hung {
		return "", fmt.Errorf("Unmarshal of %d nested unknown groups did not return within the watchdog", n)
	}
	if res.panicked != nil {
		return "", fmt.Errorf("Unmarshal of %d nested unknown groups panicked: %v", n, res.panicked)
	}
	if (derr == nil) != (res.err == nil) {
		return "", fmt.Errorf("%d nested groups of an undeclared field number: reference says %v, generated code says %v", n, derr, res.err)
	}
	if res.err != nil {
		return "groups-both-reject", nil
	}
	other := t.New()
	if err := proto.Unmarshal(in2, other); err != nil {
		return "", fmt.Errorf("%d nested unknown groups accepted with payload 1 but rejected with payload 2: %v", n, err)
	}
	if err := usable(nil, t, in, res.p); err != nil {
		return "", fmt.Errorf("message with %d nested unknown groups accepted by Unmarshal is not usable afterwards: %v", n, err)
	}
	if perr := safely(func() error { _ = proto.Equal(res.p, other); _ = proto.Equal(other, res.p); return nil }); perr != nil {
		return "", fmt.Errorf("proto.Equal of two accepted messages holding %d nested unknown groups panics: %v", n, perr)
	}
	return "groups-both-accept", nil
}

func checkOverrun(t *model.Type, dc depthCase) (string, error) {
	fd := t.Desc.Fields().ByNumber(protoreflect.FieldNumber(dc.Overrun))
	which := 2
	if dc.Limit < 0 {
		which = 1
	}
	if fd == nil || !fd.IsMap() {
		return "", fmt.Errorf("HARNESS: %s has no map field %d", dc.Type, dc.Overrun)
	}
	in := overrunInput(fd, dc.Levels, which)
	runtime.GC()
	var m0, m1 runtime.MemStats
	p := t.New()
	runtime.ReadMemStats(&m0)
	res, hung := decodeGuardedInto(p, in)
	runtime.ReadMemStats(&m1)
	if hung {
		return "", fmt.Errorf("Unmarshal of %d map entries whose %s length claims the rest of the input (%d bytes) did not return within the watchdog", dc.Levels, []string{"", "key", "value"}[which], len(in))
	}
	if res.panicked != nil {
		return "", fmt.Errorf("Unmarshal of %d map entries whose %s length claims the rest of the input panicked: %v", dc.Levels, []string{"", "key", "value"}[which], res.panicked)
	}
	alloc := m1.TotalAlloc - m0.TotalAlloc
	budget := uint64(256<<10) + 64*uint64(len(in))
	if alloc > budget {
		return "", fmt.Errorf("allocation out of proportion to the input: %d entries of map %s whose %s length claims the rest of the input (%d bytes in all) made Unmarshal allocate %d bytes (result: %v; budget 256 KiB + 64 bytes per input byte)",
			dc.Levels, fd.Name(), []string{"", "key", "value"}[which], len(in), alloc, res.err)
	}
	if res.err != nil {
		return "overrun-rejected", nil
	}
	return "overrun-accepted-within-budget", nil
}

func checkDepth(dc depthCase) (string, error) {
	t, err := mustType(dc.Type)
	if err != nil {
		return "", err
	}
	if dc.Overrun > 0 {
		return checkOverrun(t, dc)
	}
	if dc.Groups > 0 {
		return checkDeepGroups(t, dc.Groups)
	}
	if dc.Alloc > 0 {
		path := cyclePath(t.Desc)
		if path == nil {
			return "not-recursive", nil
		}
		return allocGrowth(t, path, dc.Levels, dc.Alloc)
	}
	var b []byte
	if len(dc.Hops) > 0 {
		var ok bool
		if b, ok = walkPayload(t.Desc, dc.Hops, dc.Width); !ok {
			return "", fmt.Errorf("HARNESS: walk %v is not valid for %s", dc.Hops, dc.Type)
		}
		dc.Levels = len(dc.Hops)
	} else {
		path := cyclePath(t.Desc)
		if dc.Cycle > 0 {
			if cs := cyclePaths(t.Desc); dc.Cycle <= len(cs) {
				path = cs[dc.Cycle-1]
			} else {
				return "", fmt.Errorf("HARNESS: %s has no cycle #%d", dc.Type, dc.Cycle)
			}
		}
		if path == nil {
			return "not-recursive", nil
		}
		w := dc.Width
		if w < 1 {
			w = 1
		}
		b = widePayload(path, dc.Levels, w)
	}
	opts := proto.UnmarshalOptions{RecursionLimit: dc.Limit}
	d := t.NewD()
	derr := opts.Unmarshal(b, d)
	res, hung := decodeGuarded(t, b, opts, false)
	if hung {
		return "", fmt.Errorf("Unmarshal of %d nesting levels (%d bytes) did not return within the watchdog", dc.Levels, len(b))
	}
	if res.panicked != nil {
		return "", fmt.Errorf("Unmarshal of %d nesting levels panicked: %v", dc.Levels, res.panicked)
	}
	if (derr == nil) != (res.err == nil) {
		return "", fmt.Errorf("nesting %d levels (%d records per level) with RecursionLimit %d: reference says %v, generated code says %v", dc.Levels, max(dc.Width, 1), dc.Limit, derr, res.err)
	}
	if derr == nil {
		if canonI(res.p) != canonD(d.ProtoReflect()) {
			return "", fmt.Errorf("nesting %d levels: decoded value differs from reference", dc.Levels)
		}
		return "both-accept", nil
	}
	return "both-reject", nil
}

func replayC06(ctx *Ctx, c *Case) error {
	switch c.Sub {
	case "depth":
		_, err := checkDepth(depthCase{Type: c.Type, Levels: c.argInt("levels"), Limit: c.argInt("limit"), Hops: parseHops(c.arg("hops")), Width: c.argInt("width"), Alloc: c.argInt("alloc"), Cycle: c.argInt("cycle"), Overrun: c.argInt("overrun"), Groups: c.argInt("groups")})
		return err
	case "fuzz":
		return fuzzOne(ctx, unhex(c.Bytes))
	default:
		return checkDecodeTotal(ctx, c)
	}
}

// ---- native fuzz target --------------------------------------------------

func fuzzOne(ctx *Ctx, data []byte) error {
	types := model.TypesNoBulk()
	if len(data) < 2 || len(types) == 0 {
		return nil
	}
	t := types[(int(data[0])<<8|int(data[1]))%len(types)]
	return checkDecodeTotal(ctx, &Case{Sub: "mutate", Type: string(t.Name), Bytes: hexs(data[2:])})
}

func fuzzDecode(f *testing.F) {
	types := model.TypesNoBulk()
	// seeds: empty input and hostile constants for a few types, plus valid encodings
	for i := range types {
		hdr := []byte{byte(i >> 8), byte(i)}
		f.Add(append(append([]byte{}, hdr...), 0x0a, 0x00))
		if i%7 == 0 {
			for _, h := range hostileVarints {
				f.Add(append(append(append([]byte{}, hdr...), 0x0a), h...))
			}
			f.Add(append(append([]byte{}, hdr...), 0x92, 0x01, 0x00))
		}
	}
	// a few valid encodings per type, drawn from the stream generator with fixed example seeds
	sctx := newCtx(nil, "C06")
	for i, t := range types {
		if i%3 != 0 {
			continue
		}
		t := t
		g := rapid.Custom(func(rt *rapid.T) []byte {
			cfg := sctx.streamCfg(true, false)
			b := cfg.GenStream(rt, t.Desc, 0)
			if b == nil {
				b = []byte{}
			}
			rapid.Bool().Draw(rt, "pad")
			return b
		})
		for k := 0; k < 2; k++ {
			f.Add(append([]byte{byte(i >> 8), byte(i)}, g.Example(k+1)...))
		}
	}
	ctx := newCtx(nil, "C06")
	f.Fuzz(func(t *testing.T, data []byte) {
		if len(data) > 1<<16 {
			return
		}
		if err := fuzzOne(ctx, data); err != nil {
			t.Fatalf("%v", err)
		}
	})
}

var _ = reflect.TypeOf

func hopsStr(h []int) string {
	var parts []string
	for _, n := range h {
		parts = append(parts, strconv.Itoa(n))
	}
	return strings.Join(parts, ".")
}

func parseHops(s string) []int {
	var out []int
	for _, p := range strings.Split(s, ".") {
		if n, err := strconv.Atoi(p); err == nil {
			out = append(out, n)
		}
	}
	return out
}
