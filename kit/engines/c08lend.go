package engines

import (
	"fmt"
	"strconv"

	"google.golang.org/protobuf/proto"
	"google.golang.org/protobuf/reflect/protoreflect"
	"pgregory.net/rapid"

	"verif/kit/model"
)

// Sub "lend" of C08: a list or map view that belongs to one message (from
// Mutable, Get on a populated field, or NewField) is passed as the ARGUMENT
// of Set on a second message and then used again. protoreflect leaves the
// aliasing between the argument and the destination unspecified (dynamicpb
// shares, protoimpl copies the header), so the destination is only compared
// (a) right after Set and (b) after the destination cleared the field; the
// LENDER however is fully specified on every side: Set on another message
// must not change what the view is a view of.

type lendSide struct {
	a, b protoreflect.Message
	ra   proto.Message // lender root (for canon)
	rb   proto.Message
	view model.Viewer
}

func lendSides(t *model.Type, ab, bb []byte) ([3]lendSide, error) {
	var out [3]lendSide
	da, err := decodeD(t, ab)
	if err != nil {
		return out, err
	}
	db, err := decodeD(t, bb)
	if err != nil {
		return out, err
	}
	pa, pb := model.BuildP(t, da), model.BuildP(t, db)
	ia, ib := model.BuildP(t, da), model.BuildP(t, db)
	out[sP] = lendSide{a: pa.ProtoReflect(), b: pb.ProtoReflect(), ra: pa, rb: pb, view: model.Same}
	out[sD] = lendSide{a: da, b: db, ra: da, rb: db, view: model.Same}
	out[sI] = lendSide{a: model.ImplOf(ia), b: model.ImplOf(ib), ra: ia, rb: ib, view: model.Impl}
	return out, nil
}

func runC08Lend(ctx *Ctx) {
	n := ctx.N(250, 3000)
	for _, t := range ctx.types() {
		t := t
		var fds []protoreflect.FieldDescriptor
		for i := 0; i < t.Desc.Fields().Len(); i++ {
			if fd := t.Desc.Fields().Get(i); fd.IsList() || fd.IsMap() {
				fds = append(fds, fd)
			}
		}
		if len(fds) == 0 {
			continue
		}
		ctx.CheckRapid(string(t.Name)+"/lend", n, func(rt *rapid.T) *Case {
			fd := fds[rapid.IntRange(0, len(fds)-1).Draw(rt, "field")]
			cfg := ctx.streamCfg(false, false)
			cfg.MaxRecords = 6
			a := cfg.GenStream(rt, t.Desc, 0)
			b := cfg.GenStream(rt, t.Desc, 0)
			if a == nil {
				a = []byte{}
			}
			if b == nil {
				b = []byte{}
			}
			c := &Case{Sub: "lend", Type: string(t.Name), Bytes: hexs(a), Bytes2: hexs(b), Args: map[string]string{
				"field":  strconv.Itoa(int(fd.Number())),
				"source": rapid.SampledFrom([]string{"mutable", "mutable", "get", "newfield"}).Draw(rt, "source"),
				"then":   rapid.SampledFrom([]string{"mutate", "clearmutate", "clearmutate", "lenderclear", "bothappend"}).Draw(rt, "then"),
				"pre":    strconv.Itoa(rapid.IntRange(0, 3).Draw(rt, "elementsFirst")),
				"post":   strconv.Itoa(rapid.IntRange(1, 3).Draw(rt, "elementsAfter")),
			}}
			// element payloads (scalar payload or message bytes) and map keys
			for i := 0; i < 6; i++ {
				var efd protoreflect.FieldDescriptor = fd
				if fd.IsMap() {
					efd = fd.MapValue()
					c.Args["k"+strconv.Itoa(i)] = hexs(model.DrawScalarPayload(rt, fd.MapKey()))
				}
				if efd.Message() != nil {
					c.Args["v"+strconv.Itoa(i)] = drawMsgBytes(rt, ctx, efd.Message())
				} else {
					c.Args["v"+strconv.Itoa(i)] = hexs(model.DrawScalarPayload(rt, efd))
				}
			}
			return c
		}, func(c *Case) error { return checkC08Lend(ctx, c) })
	}
}

func checkC08Lend(ctx *Ctx, c *Case) error {
	t, err := mustType(c.Type)
	if err != nil {
		return err
	}
	fd := fdOf(t.Desc, c.argInt("field"))
	if fd == nil || !(fd.IsList() || fd.IsMap()) {
		return fmt.Errorf("HARNESS: field %s is not a list or map of %s", c.arg("field"), c.Type)
	}
	sides, err := lendSides(t, unhex(c.Bytes), unhex(c.Bytes2))
	if err != nil {
		ctx.Label("discarded: reference rejects the stream")
		return nil
	}
	source, then := c.arg("source"), c.arg("then")
	if source == "get" && !sides[sD].a.Has(fd) {
		source = "mutable" // Get on an unpopulated field gives the read-only empty view, whose use with Set is a contract panic
	}
	if then == "bothappend" && (source != "mutable" || !fd.IsList()) {
		then = "mutate" // both sides appending only makes sense for a list lent from Mutable
	}
	if then == "lenderclear" && source == "newfield" {
		then = "clearmutate" // a detached value has no lender to clear
	}
	elem := func(s int, i int) (protoreflect.Value, error) {
		var efd protoreflect.FieldDescriptor = fd
		if fd.IsMap() {
			efd = fd.MapValue()
		}
		if efd.Message() != nil {
			vals, err := newMessageValue(efd.Message(), unhex(c.arg("v"+strconv.Itoa(i))))
			if err != nil {
				return protoreflect.Value{}, err
			}
			return vals[s], nil
		}
		return model.DecodeScalar(efd, unhex(c.arg("v"+strconv.Itoa(i)))), nil
	}
	var views [3]protoreflect.Value
	put := func(s int, i int) error {
		v, err := elem(s, i)
		if err != nil {
			return err
		}
		if fd.IsMap() {
			views[s].Map().Set(keyOf(fd, c.arg("k"+strconv.Itoa(i))), v)
		} else {
			views[s].List().Append(v)
		}
		return nil
	}
	// canonical rendering of what a view holds, through a scratch message of the side
	viewStr := func(s int) string {
		out := ""
		if fd.IsMap() {
			out = fmt.Sprintf("len=%d", views[s].Map().Len())
		} else {
			out = fmt.Sprintf("len=%d", views[s].List().Len())
		}
		return out
	}
	fieldStr := func(s int, m protoreflect.Message) string {
		if !m.Has(fd) {
			return "<unpopulated>"
		}
		return model.Canon(m, sides[s].view)
	}
	type obs struct{ afterSet, lender, dest, viewLen string }
	var got [3]obs
	var pan [3]string
	for s := 0; s < 3; s++ {
		s := s
		err := safely(func() error {
			sd := sides[s]
			switch source {
			case "mutable":
				views[s] = sd.a.Mutable(fd)
			case "get":
				views[s] = sd.a.Get(fd)
			default:
				views[s] = sd.a.NewField(fd)
			}
			pre := c.argInt("pre")
			if source == "get" {
				pre = 0 // Get views of a populated field are used as they are
			}
			for i := 0; i < pre; i++ {
				if err := put(s, i); err != nil {
					return err
				}
			}
			sd.b.Set(fd, views[s])
			got[s].afterSet = fieldStr(s, sd.b)
			if then == "clearmutate" {
				sd.b.Clear(fd)
			}
			if then == "bothappend" {
				// lender appends through its view, then the borrower appends through its
				// own Mutable view: whether the two lists share memory after Set differs
				// between the references; the generated code must behave like one of them
				if err := put(s, 3); err != nil {
					return err
				}
				v, err := elem(s, 4)
				if err != nil {
					return err
				}
				sd.b.Mutable(fd).List().Append(v)
				got[s].viewLen = viewStr(s)
				got[s].lender = model.Canon(sd.a, sd.view)
				got[s].dest = model.Canon(sd.b, sd.view)
				return nil
			}
			if then == "lenderclear" {
				// the lender drops the field: the destination keeps what it was given
				sd.a.Clear(fd)
				got[s].viewLen = "-"
				got[s].lender = model.Canon(sd.a, sd.view)
				got[s].dest = model.Canon(sd.b, sd.view)
				return nil
			}
			if source == "get" {
				// a Get view is read-only by contract: mutate the lender through Mutable instead
				views[s] = sd.a.Mutable(fd)
			}
			for i := 0; i < c.argInt("post"); i++ {
				if err := put(s, 3+i); err != nil {
					return err
				}
			}
			got[s].viewLen = viewStr(s)
			got[s].lender = model.Canon(sd.a, sd.view)
			got[s].dest = model.Canon(sd.b, sd.view)
			if then == "clearmutate" && sd.b.Has(fd) {
				got[s].dest += " [Has=true after Clear]"
			}
			return nil
		})
		if err != nil {
			pan[s] = err.Error()
		}
	}
	if pan[sD] != "" || pan[sI] != "" {
		ctx.Label("lend: a reference panicked or rejected (not asserted)")
		return nil
	}
	if pan[sP] != "" {
		return fmt.Errorf("lending a %s view of field %s to Set on another message: generated code failed where both references work: %s", source, fd.Name(), pan[sP])
	}
	ctx.Label("lend source:" + source + " then:" + then)
	cmp := func(what string, p, d, i string) error {
		if d != i {
			ctx.Label("lend: references disagree on " + what + " (not asserted)")
			return nil
		}
		if p != d {
			return fmt.Errorf("field %s, view from %s passed to Set on a second message, then %s: %s differs from both references: %s", fd.Name(), source, then, what, diffStr(p, d))
		}
		return nil
	}
	if err := cmp("the destination right after Set", got[sP].afterSet, got[sD].afterSet, got[sI].afterSet); err != nil {
		return err
	}
	if source != "newfield" {
		if err := cmp("the LENDER after later writes through its own view", got[sP].lender, got[sD].lender, got[sI].lender); err != nil {
			return err
		}
	}
	if err := cmp("length seen through the view", got[sP].viewLen, got[sD].viewLen, got[sI].viewLen); err != nil {
		return err
	}
	if then == "bothappend" {
		pp := got[sP].lender + " / " + got[sP].dest
		dd := got[sD].lender + " / " + got[sD].dest
		ii := got[sI].lender + " / " + got[sI].dest
		if pp != dd && pp != ii {
			return fmt.Errorf("field %s: a list view from Mutable is passed to Set on a second message, the lender appends, then the borrower appends: lender / borrower are %s, which is neither dynamicpb's outcome (%s) nor protoimpl's (%s)", fd.Name(), trunc(pp, 300), trunc(dd, 300), trunc(ii, 300))
		}
		ctx.Nontrivial(c.Type, c.Sub, fmt.Sprintf("%s|%s|%s|%s|%s|%v", c.arg("field"), source, then, c.Bytes, c.Bytes2, c.Args))
		return nil
	}
	if then == "lenderclear" {
		if err := cmp("the destination after the lender cleared its field", got[sP].dest, got[sD].dest, got[sI].dest); err != nil {
			return err
		}
	} else if then == "clearmutate" {
		if err := cmp("the destination after it cleared the field and the view was written again", got[sP].dest, got[sD].dest, got[sI].dest); err != nil {
			return err
		}
	} else if source != "get" {
		// whether the destination sees later writes through the argument is open
		// for lists (dynamicpb shares, protoimpl copies the slice header) but not
		// for maps, which every implementation shares: asserted when both agree
		if err := cmp("the destination after later writes through the view that was passed to Set", got[sP].dest, got[sD].dest, got[sI].dest); err != nil {
			return err
		}
	}
	ctx.Nontrivial(c.Type, c.Sub, fmt.Sprintf("%s|%s|%s|%s|%s|%v", c.arg("field"), source, then, c.Bytes, c.Bytes2, c.Args))
	return nil
}
