package engines

import "unsafe"

func unsafePointer(b []byte) unsafe.Pointer { return unsafe.Pointer(unsafe.SliceData(b)) }
