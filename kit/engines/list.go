package engines

import (
	"fmt"

	"verif/kit/model"
)

func init() {
	register(&Engine{ID: "LIST", Run: func(ctx *Ctx) {
		for _, t := range model.Types() {
			fmt.Printf("TYPE %s fresh=%v fields=%d file=%s\n", t.Name, t.Fresh, t.Desc.Fields().Len(), t.File)
		}
	}})
}
