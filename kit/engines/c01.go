package engines

import (
	"fmt"
	"strings"

	"google.golang.org/protobuf/encoding/protowire"
	"google.golang.org/protobuf/proto"
	"google.golang.org/protobuf/reflect/protoreflect"
	"pgregory.net/rapid"

	"verif/kit/model"
)

func init() {
	register(&Engine{
		ID:   "C01",
		Desc: "wire round trip preserves every message value",
		Rule: "per generated type: a well-typed random wire stream (boundary-biased scalars, NaN payloads, -0, unknown records, nested/map/oneof shapes) is decoded by dynamicpb to obtain the value V; the generated struct is filled from V through protoimpl's own reflection; case = (type, V, marshal mode). Non-trivial: V has >= 1 populated field or unknown record; distinct by digest of (type, mode, encoded bytes).",
		Run:  runC01, Replay: func(ctx *Ctx, c *Case) error { return checkC01(ctx, c) },
		Assumptions: []string{"dynamicpb and protoimpl reflection of protobuf-go v1.34.0 are correct", "float32 signalling NaNs are not generated (protoreflect cannot carry them)"},
	})
}

func runC01(ctx *Ctx) {
	defer runScale(ctx, "scale", map[string]string{"mode": "deterministic"}, func(c *Case) error { return checkC01(ctx, c) })
	n := ctx.N(4000, 40000)
	for _, t := range ctx.types() {
		t := t
		ctx.CheckRapid(string(t.Name), n, func(rt *rapid.T) *Case {
			unknown := rapid.IntRange(0, 2).Draw(rt, "unknown") == 0
			b, d := ctx.genTypeStream(rt, t, unknown, false)
			if d == nil {
				return nil
			}
			mode := rapid.SampledFrom([]string{"default", "deterministic"}).Draw(rt, "mode")
			return &Case{Type: string(t.Name), Bytes: hexs(b), Args: map[string]string{"mode": mode}}
		}, func(c *Case) error { return checkC01(ctx, c) })
		// one wide value per type: more children of ONE parent than any nesting
		// limit counts (children are siblings, not levels)
		if b := wideStream(t.Desc, 10050); b != nil {
			c := &Case{Sub: "wide", Type: string(t.Name), Bytes: hexs(b), Args: map[string]string{"mode": "default"}}
			ctx.Eval(1)
			if err := safely(func() error { return checkC01(ctx, c) }); err != nil {
				if strings.HasPrefix(err.Error(), "HARNESS") {
					fmt.Printf("HARNESS-ERROR %v\n", err)
				} else {
					ctx.Violation(c, err.Error())
				}
				ctx.T.Fail()
			} else {
				ctx.Label("wide: 10050 message-typed children of one parent")
			}
		}
	}
}

// wideStream encodes n empty children in the first repeated message field of
// md, or n entries (distinct keys, empty values) in its first map with message
// values and a string or varint key; nil if md has neither.
func wideStream(md protoreflect.MessageDescriptor, n int) []byte {
	fds := md.Fields()
	for i := 0; i < fds.Len(); i++ {
		fd := fds.Get(i)
		if fd.IsList() && fd.Message() != nil {
			var b []byte
			for k := 0; k < n; k++ {
				b = protowire.AppendBytes(protowire.AppendTag(b, fd.Number(), protowire.BytesType), nil)
			}
			return b
		}
	}
	for i := 0; i < fds.Len(); i++ {
		fd := fds.Get(i)
		if !fd.IsMap() || fd.MapValue().Message() == nil {
			continue
		}
		var b []byte
		for k := 0; k < n; k++ {
			var e []byte
			switch fd.MapKey().Kind() {
			case protoreflect.StringKind:
				e = protowire.AppendString(protowire.AppendTag(e, 1, protowire.BytesType), fmt.Sprint("k", k))
			case protoreflect.Int32Kind, protoreflect.Int64Kind, protoreflect.Uint32Kind, protoreflect.Uint64Kind:
				e = protowire.AppendVarint(protowire.AppendTag(e, 1, protowire.VarintType), uint64(k))
			default:
				e = nil
			}
			if e == nil {
				b = nil
				break
			}
			e = protowire.AppendBytes(protowire.AppendTag(e, 2, protowire.BytesType), nil)
			b = protowire.AppendBytes(protowire.AppendTag(b, fd.Number(), protowire.BytesType), e)
		}
		if b != nil {
			return b
		}
	}
	return nil
}

func checkC01(ctx *Ctx, c *Case) error {
	scaleBytes(c)
	t, err := mustType(c.Type)
	if err != nil {
		return err
	}
	d, err := decodeD(t, unhex(c.Bytes))
	if err != nil {
		return nil // not a value
	}
	want := canonD(d.ProtoReflect())
	p := model.BuildP(t, d.ProtoReflect())
	if got := canonI(p); got != want {
		return fmt.Errorf("HARNESS: struct filled through protoimpl reads back differently: %s", diffStr(got, want))
	}
	opts := proto.MarshalOptions{Deterministic: c.arg("mode") == "deterministic"}
	out, err := opts.Marshal(p)
	if err != nil {
		return fmt.Errorf("Marshal(%s) failed on a message with valid UTF-8 strings: %v", c.arg("mode"), err)
	}
	if got := canonI(p); got != want {
		return fmt.Errorf("Marshal changed the message: %s", diffStr(got, want))
	}
	q := t.New()
	if err := proto.Unmarshal(out, q); err != nil {
		return fmt.Errorf("Unmarshal of own encoding failed: %v (bytes %s)", err, trunc(hexs(out), 400))
	}
	if got := canonI(q); got != want {
		return fmt.Errorf("round trip changed the value (struct read by protoimpl): %s", diffStr(got, want))
	}
	if got := canonP(q); got != want {
		return fmt.Errorf("round trip changed the value (read by generated reflection): %s", diffStr(got, want))
	}
	d2, err := decodeD(t, out)
	if err != nil {
		return fmt.Errorf("reference decoder rejects the generated encoding: %v (bytes %s)", err, trunc(hexs(out), 400))
	}
	if got := canonD(d2.ProtoReflect()); got != want {
		return fmt.Errorf("reference decoder reads a different value from the generated encoding: %s", diffStr(got, want))
	}
	if want != "{}" {
		ctx.Nontrivial(c.Type, c.arg("mode"), string(out))
		ctx.Label(fmt.Sprintf("depth=%d", model.Depth(d.ProtoReflect())))
	} else {
		ctx.Label("trivial: empty value")
	}
	return nil
}
