package engines

import (
	"bytes"
	"fmt"
	"strconv"
	"strings"

	cosmos_proto "github.com/cosmos/cosmos-proto"
	"github.com/cosmos/cosmos-proto/anyutil"
	"google.golang.org/protobuf/encoding/protowire"
	"google.golang.org/protobuf/proto"
	"google.golang.org/protobuf/reflect/protodesc"
	"google.golang.org/protobuf/reflect/protoreflect"
	"google.golang.org/protobuf/reflect/protoregistry"
	"google.golang.org/protobuf/types/descriptorpb"
	"google.golang.org/protobuf/types/dynamicpb"
	"google.golang.org/protobuf/types/known/anypb"
	"google.golang.org/protobuf/types/known/durationpb"
	"google.golang.org/protobuf/types/known/structpb"
	"google.golang.org/protobuf/types/known/timestamppb"
	"google.golang.org/protobuf/types/known/typepb"
	"google.golang.org/protobuf/types/known/wrapperspb"
	"pgregory.net/rapid"

	"verif/kit/model"
)

func init() {
	register(&Engine{
		ID:   "C16",
		Desc: "anyutil packs and unpacks every message faithfully and never panics",
		Rule: "sub pack: message m = random value of every generated type, or a well-known/descriptorpb message, x options {zero, Deterministic, AllowPartial}: TypeUrl == '/'+full name, Value == opts.Marshal(m) (bytewise when deterministic, decode-equal otherwise), Unpack through the type registry and through the file registry (empty type registry -> dynamic message) both equal m and each other. sub hostile: Any with URL drawn from a grammar (empty, '/', message / enum / enum value / service / method / field / package / file names, host prefixes, several slashes, non-UTF-8, very long, spaces) x value bytes (valid for that type, valid for another type, mutated, random) x resolver combination (nil/nil, global, empty types, empty files, custom subsets): result is (msg,nil) xor (nil,err), never a panic. sub failpack: sources whose marshal fails leave a sentinel-filled destination unchanged. Non-trivial: non-empty value bytes or a URL naming a registered entity; distinct by digest of the case.",
		Run:  runC16, Replay: func(ctx *Ctx, c *Case) error { return checkC16(ctx, c) },
		Assumptions: []string{"a nil *anypb.Any is outside the domain (not an Any)"},
	})
}

var urlNames = []string{
	"", "/", "//", "/.", ".", "/ ", " /A", "A", "/A", "/B", "/testpb.A", "/ImportedMessage",
	"/goproto.proto.test3.TestAllTypes", "/goproto.proto.test3.TestAllTypes.NestedMessage", "type.googleapis.com/goproto.proto.test3.TestAllTypes",
	"/google.protobuf.Timestamp", "type.googleapis.com/google.protobuf.Timestamp", "/google.protobuf.Any",
	"/goproto.proto.test3.TestAllTypes.NestedEnum", "/goproto.proto.test3.ForeignEnum", "/goproto.proto.test3.FOREIGN_FOO", "/Enumeration", "/One",
	"/verif.opts.Kennel", "/verif.opts.Kennel.Find", "/Query", "/Query.Counter", "/verif.opts.Dog.owner", "/A.enum", "/verif.opts", "/goproto.proto.test3",
	"/cosmos_proto.scalar", "/cosmos_proto.ScalarDescriptor", "/google.protobuf.FieldOptions",
	"a/b/c/A", "http://host/path/A", "/A/", "/A/B", "\xff\xfe", "/\xff", "/A\x00", "/a..b", "/.A", "/A.",
	"/" + strings.Repeat("x", 5000), strings.Repeat("/", 300) + "A", "/" + strings.Repeat("a.", 400) + "B",
}

func resolverCombo(i int) (protodesc.Resolver, protoregistry.MessageTypeResolver, string) {
	emptyT := &protoregistry.Types{}
	emptyF := &protoregistry.Files{}
	subT := &protoregistry.Types{}
	if mt, err := protoregistry.GlobalTypes.FindMessageByName("B"); err == nil {
		_ = subT.RegisterMessage(mt)
	}
	subF := &protoregistry.Files{}
	if fd, err := protoregistry.GlobalFiles.FindFileByPath("2.proto"); err == nil {
		_ = subF.RegisterFile(fd)
	}
	switch i % 10 {
	case 8:
		// a type resolver that itself serves dynamicpb types
		return nil, dynamicpb.NewTypes(protoregistry.GlobalFiles), "nil/dynamic-types"
	case 9:
		return emptyF, dynamicpb.NewTypes(protoregistry.GlobalFiles), "empty-files/dynamic-types"
	case 0:
		return nil, nil, "nil/nil"
	case 1:
		return protoregistry.GlobalFiles, protoregistry.GlobalTypes, "global/global"
	case 2:
		return nil, emptyT, "nil/empty-types"
	case 3:
		return emptyF, emptyT, "empty-files/empty-types"
	case 4:
		return emptyF, nil, "empty-files/nil"
	case 5:
		return subF, subT, "subset-files/subset-types"
	case 6:
		return subF, emptyT, "subset-files/empty-types"
	default:
		return protoregistry.GlobalFiles, subT, "global/subset-types"
	}
}

func runC16(ctx *Ctx) {
	types := model.TypesNoBulk()
	per := func(q, th int) int { return ctx.N(q, th)/ctx.NShards + 1 }
	ctx.CheckRapid("pack", per(100000, 800000), func(rt *rapid.T) *Case {
		c := &Case{Sub: "pack", Args: map[string]string{}}
		c.Args["opts"] = rapid.SampledFrom([]string{"zero", "deterministic", "allowpartial"}).Draw(rt, "opts")
		if rapid.IntRange(0, 5).Draw(rt, "wk") == 0 {
			c.Args["wk"] = fmt.Sprint(rapid.IntRange(0, 8).Draw(rt, "wkidx"))
			c.Args["n"] = fmt.Sprint(rapid.Int64().Draw(rt, "n"))
			return c
		}
		t := types[rapid.IntRange(0, len(types)-1).Draw(rt, "type")]
		b, d := ctx.genTypeStream(rt, t, rapid.Bool().Draw(rt, "unknown"), true)
		if d == nil {
			return nil
		}
		c.Type, c.Bytes = string(t.Name), hexs(b)
		return c
	}, func(c *Case) error { return checkC16(ctx, c) })

	ctx.CheckRapid("hostile", per(250000, 2000000), func(rt *rapid.T) *Case {
		c := &Case{Sub: "hostile", Args: map[string]string{}}
		var url string
		switch rapid.IntRange(0, 3).Draw(rt, "urlclass") {
		case 0:
			t := types[rapid.IntRange(0, len(types)-1).Draw(rt, "type")]
			url = rapid.SampledFrom([]string{"/", "", "type.googleapis.com/", "x/y/"}).Draw(rt, "prefix") + string(t.Name)
			c.Type = string(t.Name)
		case 1:
			url = rapid.String().Draw(rt, "randurl")
		default:
			url = rapid.SampledFrom(urlNames).Draw(rt, "url")
		}
		c.Args["url"] = hexs([]byte(url))
		var val []byte
		switch rapid.IntRange(0, 3).Draw(rt, "valclass") {
		case 0:
		case 1:
			val = rapid.SliceOfN(rapid.Byte(), 0, 20).Draw(rt, "randval")
		default:
			t := types[rapid.IntRange(0, len(types)-1).Draw(rt, "vtype")]
			if c.Type != "" && rapid.Bool().Draw(rt, "sametype") {
				t = model.TypeByName(c.Type)
			}
			val, _ = ctx.genTypeStream(rt, t, true, false)
			if len(val) > 0 && rapid.IntRange(0, 2).Draw(rt, "mutate") == 0 {
				val = append([]byte{}, val...)
				val = val[:rapid.IntRange(0, len(val)).Draw(rt, "trunc")]
			}
		}
		if rapid.IntRange(0, 7).Draw(rt, "badentry") == 0 {
			// a map entry whose key (or value) field re-occurs in another wire type
			// after a valid occurrence: reflection-based decoders mishandle it
			vt := types[rapid.IntRange(0, len(types)-1).Draw(rt, "maptype")]
			if c.Type != "" && rapid.Bool().Draw(rt, "sametype2") {
				vt = model.TypeByName(c.Type)
			}
			var maps []protoreflect.FieldDescriptor
			for i := 0; i < vt.Desc.Fields().Len(); i++ {
				if fd := vt.Desc.Fields().Get(i); fd.IsMap() {
					maps = append(maps, fd)
				}
			}
			if len(maps) > 0 {
				fd := maps[rapid.IntRange(0, len(maps)-1).Draw(rt, "mapfield")]
				which := protowire.Number(rapid.IntRange(1, 2).Draw(rt, "keyOrValue"))
				efd := fd.MapKey()
				if which == 2 {
					efd = fd.MapValue()
				}
				var entry []byte
				if efd.Message() == nil {
					entry = protowire.AppendTag(entry, which, wireTypeOf(efd))
					entry = append(entry, model.DrawScalarPayload(rt, efd)...)
				}
				wrong := protowire.Type(rapid.SampledFrom([]int{0, 1, 2, 5}).Draw(rt, "wrongtype"))
				entry = protowire.AppendTag(entry, which, wrong)
				switch wrong {
				case protowire.VarintType:
					entry = protowire.AppendVarint(entry, 1)
				case protowire.Fixed64Type:
					entry = protowire.AppendFixed64(entry, 0)
				case protowire.BytesType:
					entry = protowire.AppendBytes(entry, nil)
				default:
					entry = protowire.AppendFixed32(entry, 0)
				}
				val = protowire.AppendBytes(protowire.AppendTag(append([]byte{}, val...), fd.Number(), protowire.BytesType), entry)
				if c.Type == "" {
					url = "/" + string(vt.Name)
					c.Args["url"] = hexs([]byte(url))
				}
			}
		}
		c.Bytes = hexs(val)
		c.Args["resolvers"] = fmt.Sprint(rapid.IntRange(0, 9).Draw(rt, "res"))
		return c
	}, func(c *Case) error { return checkC16(ctx, c) })

	// deeply nested messages: both resolver paths must accept what the codec accepts
	if ctx.Shard == 0 {
		n := 0
		for _, t := range types {
			path := cyclePath(t.Desc)
			if path == nil {
				continue
			}
			if n++; n > 4 {
				break
			}
			for _, levels := range []int{150, 1500} {
				c := &Case{Sub: "pack", Type: string(t.Name), Bytes: hexs(nestedPayload(path, levels)), Args: map[string]string{"opts": "deterministic", "deep": fmt.Sprint(levels)}}
				ctx.Eval(1)
				if err := safely(func() error { return checkC16(ctx, c) }); err != nil {
					if strings.HasPrefix(err.Error(), "HARNESS") {
						fmt.Printf("HARNESS-ERROR %v\n", err)
					} else {
						ctx.Violation(c, fmt.Sprintf("message nested %d levels: %v", levels, err))
					}
					ctx.T.Fail()
				} else {
					ctx.Label(fmt.Sprintf("pack: nested %d levels", levels))
				}
			}
		}
	}

	// the source IS the destination, or holds it in a field: the packed value is
	// the source as it was when the call was made
	ctx.CheckRapid("alias", per(20000, 160000), func(rt *rapid.T) *Case {
		full := string(types[rapid.IntRange(0, len(types)-1).Draw(rt, "type")].Name)
		return &Case{Sub: "alias", Bytes: hexs(rapid.SliceOfN(rapid.Byte(), 0, 24).Draw(rt, "value")), Args: map[string]string{
			"shape": rapid.SampledFrom([]string{"self", "option", "holder-singular", "holder-list", "holder-map", "holder-oneof"}).Draw(rt, "shape"),
			"opts":  rapid.SampledFrom([]string{"zero", "deterministic", "allowpartial"}).Draw(rt, "opts"),
			"url":   rapid.SampledFrom([]string{"", "/" + full, "type.googleapis.com/" + full, "/google.protobuf.Any", "/google.protobuf.Option", "/verif.wkt2.Holder", "sentinel"}).Draw(rt, "url"),
		}}
	}, func(c *Case) error { return checkC16(ctx, c) })

	// a SEQUENCE of packs: what an earlier call produced must not change when later
	// calls run (scratch buffers, pools and caches shared between calls); encoded
	// sizes sit on and around the powers of two such buffers are sized by
	ctx.CheckRapid("sequence", per(20000, 160000), func(rt *rapid.T) *Case {
		k := rapid.IntRange(2, 6).Draw(rt, "npacks")
		var sizes, apis []string
		for i := 0; i < k; i++ {
			sz := rapid.OneOf(
				rapid.Map(rapid.IntRange(4, 16), func(e int) int { return 1 << uint(e) }),
				rapid.Map(rapid.IntRange(4, 16), func(e int) int { return 1<<uint(e) - 1 }),
				rapid.Map(rapid.IntRange(4, 16), func(e int) int { return 1<<uint(e) + 1 }),
				rapid.IntRange(0, 3000),
			).Draw(rt, "size")
			sizes = append(sizes, fmt.Sprint(sz))
			apis = append(apis, rapid.SampledFrom([]string{"new", "marshalfrom", "reuse"}).Draw(rt, "api"))
		}
		return &Case{Sub: "sequence", Args: map[string]string{
			"sizes": strings.Join(sizes, ","), "apis": strings.Join(apis, ","),
			"src":  rapid.SampledFrom([]string{"wrapper", "generated", "dynamic"}).Draw(rt, "src"),
			"opts": rapid.SampledFrom([]string{"zero", "deterministic", "allowpartial"}).Draw(rt, "opts"),
		}}
	}, func(c *Case) error { return checkC16(ctx, c) })

	// AllowPartial is an option like the others: a source with unset required
	// fields (proto2 types; also embedded in generated proto3 types) packs under it
	ctx.CheckRapid("partialpack", per(4000, 30000), func(rt *rapid.T) *Case {
		return &Case{Sub: "partialpack", Args: map[string]string{
			"src": fmt.Sprint(rapid.IntRange(0, 4).Draw(rt, "src")),
			"det": fmt.Sprint(rapid.Bool().Draw(rt, "det")),
			"n":   fmt.Sprint(rapid.IntRange(0, 3).Draw(rt, "n")),
		}}
	}, func(c *Case) error { return checkC16(ctx, c) })

	ctx.CheckRapid("failpack", per(5000, 40000), func(rt *rapid.T) *Case {
		return &Case{Sub: "failpack", Args: map[string]string{
			"src":  fmt.Sprint(rapid.IntRange(0, 4).Draw(rt, "src")),
			"opts": rapid.SampledFrom([]string{"zero", "deterministic"}).Draw(rt, "opts"),
			"bad":  hexs(rapid.SliceOfN(rapid.Byte(), 1, 6).Draw(rt, "bad")),
		}}
	}, func(c *Case) error { return checkC16(ctx, c) })
}

// wireTypeOf is the wire type a scalar field's payload (model.DrawScalarPayload) has.
func wireTypeOf(fd protoreflect.FieldDescriptor) protowire.Type {
	switch fd.Kind() {
	case protoreflect.Fixed32Kind, protoreflect.Sfixed32Kind, protoreflect.FloatKind:
		return protowire.Fixed32Type
	case protoreflect.Fixed64Kind, protoreflect.Sfixed64Kind, protoreflect.DoubleKind:
		return protowire.Fixed64Type
	case protoreflect.StringKind, protoreflect.BytesKind, protoreflect.MessageKind:
		return protowire.BytesType
	}
	return protowire.VarintType
}

func c16opts(s string) proto.MarshalOptions {
	switch s {
	case "deterministic":
		return proto.MarshalOptions{Deterministic: true}
	case "allowpartial":
		return proto.MarshalOptions{AllowPartial: true}
	}
	return proto.MarshalOptions{}
}

func wellKnown(i int, n int64) proto.Message {
	switch i % 9 {
	case 8:
		// a message with extension fields set (custom options of cosmos.proto)
		o := &descriptorpb.MessageOptions{Deprecated: proto.Bool(n%2 == 0)}
		proto.SetExtension(o, cosmos_proto.E_ImplementsInterface, []string{"cosmos.Msg", fmt.Sprint(n % 7)})
		proto.SetExtension(o, cosmos_proto.E_MessageAddedIn, "v"+fmt.Sprint(n%100))
		return o
	case 0:
		return &timestamppb.Timestamp{Seconds: n % 1e10, Nanos: int32(uint64(n) % 1e9)}
	case 1:
		return &durationpb.Duration{Seconds: n % 1e10}
	case 2:
		s, _ := structpb.NewStruct(map[string]interface{}{"a": float64(n % 1000), "b": []interface{}{"x", true, nil}})
		return s
	case 3:
		return wrapperspb.String(fmt.Sprint(n))
	case 4:
		return protodesc.ToFileDescriptorProto(timestamppb.File_google_protobuf_timestamp_proto)
	case 5:
		return &descriptorpb.FieldOptions{Packed: proto.Bool(n%2 == 0)}
	case 6:
		return &anypb.Any{TypeUrl: "/x", Value: []byte{byte(n)}}
	default:
		return &wrapperspb.BytesValue{}
	}
}

// sizedMessage builds a message of the wanted kind whose encoding is exactly
// (or, where no length fits, nearly) size bytes long, filled with the byte fill.
func sizedMessage(src string, size int, fill byte) proto.Message {
	body := func(overhead int) []byte {
		// tag + length prefix + n bytes == size
		n := size - overhead - 1
		for n > 0 && overhead+protowire.SizeVarint(uint64(n))+n > size {
			n--
		}
		if n < 0 {
			n = 0
		}
		b := make([]byte, n)
		for i := range b {
			b[i] = fill
		}
		return b
	}
	if src != "wrapper" {
		for _, t := range model.TypesNoBulk() {
			fds := t.Desc.Fields()
			for i := 0; i < fds.Len(); i++ {
				fd := fds.Get(i)
				if fd.Kind() != protoreflect.BytesKind || fd.Cardinality() == protoreflect.Repeated || fd.ContainingOneof() != nil {
					continue
				}
				d := t.NewD()
				if b := body(protowire.SizeTag(fd.Number())); len(b) > 0 {
					d.Set(fd, protoreflect.ValueOfBytes(b))
				}
				if src == "dynamic" {
					return d
				}
				return model.BuildP(t, d.ProtoReflect())
			}
		}
	}
	return &wrapperspb.BytesValue{Value: body(1)}
}

// partialSource builds a message with an unset required field.
func partialSource(i, n int) proto.Message {
	parts := make([]*descriptorpb.UninterpretedOption_NamePart, n+1)
	for k := range parts {
		parts[k] = &descriptorpb.UninterpretedOption_NamePart{}
		if k%2 == 1 {
			parts[k].IsExtension = proto.Bool(true) // one of the two required fields set
		}
	}
	switch i % 5 {
	case 0:
		return parts[0]
	case 1:
		return &descriptorpb.UninterpretedOption{Name: parts, IdentifierValue: proto.String("x")}
	case 2:
		d := dynamicpb.NewMessage(parts[0].ProtoReflect().Descriptor())
		return d
	case 3:
		return &descriptorpb.FileOptions{UninterpretedOption: []*descriptorpb.UninterpretedOption{{Name: parts}}}
	default:
		// a generated proto3 type embedding the proto2 message, if the corpus has one
		for _, t := range model.TypesNoBulk() {
			if !model.HasRequired(t.Desc) {
				continue
			}
			fds := t.Desc.Fields()
			for k := 0; k < fds.Len(); k++ {
				if fd := fds.Get(k); fd.Message() != nil && !fd.IsList() && !fd.IsMap() && fd.ContainingOneof() == nil && fd.Message().FullName() == "google.protobuf.UninterpretedOption.NamePart" {
					d := t.NewD()
					d.Mutable(fd)
					return model.BuildP(t, d.ProtoReflect())
				}
			}
		}
		return parts[0]
	}
}

func checkC16(ctx *Ctx, c *Case) error {
	switch c.Sub {
	case "partialpack":
		src := partialSource(c.argInt("src"), c.argInt("n"))
		if proto.CheckInitialized(src) == nil {
			return fmt.Errorf("HARNESS: source %T is initialized", src)
		}
		opts := proto.MarshalOptions{AllowPartial: true, Deterministic: c.arg("det") == "true"}
		want, err := opts.Marshal(src)
		if err != nil {
			return fmt.Errorf("HARNESS: reference marshal with AllowPartial failed: %v", err)
		}
		dst := &anypb.Any{TypeUrl: "sentinel", Value: []byte{1, 2, 3}}
		if err := anyutil.MarshalFrom(dst, src, opts); err != nil {
			return fmt.Errorf("anyutil.MarshalFrom with AllowPartial refused a %s with an unset required field, which opts.Marshal encodes: %v", src.ProtoReflect().Descriptor().FullName(), err)
		}
		if full := string(src.ProtoReflect().Descriptor().FullName()); dst.TypeUrl != "/"+full {
			return fmt.Errorf("TypeUrl = %q, want %q", dst.TypeUrl, "/"+full)
		}
		if !bytes.Equal(dst.Value, want) {
			return fmt.Errorf("Value differs from opts.Marshal(src) under AllowPartial: %x vs %x", dst.Value, want)
		}
		ctx.Label("partialpack: " + fmt.Sprintf("%T", src))
		ctx.Nontrivial("partialpack", c.arg("src"), c.arg("det"), c.arg("n"))
		return nil
	case "sequence":
		type packed struct {
			a    *anypb.Any
			url  string
			val  []byte
			src  proto.Message
			what string
		}
		var hist []*packed
		opts := c16opts(c.arg("opts"))
		sizes, apis := strings.Split(c.arg("sizes"), ","), strings.Split(c.arg("apis"), ",")
		verify := func(after string) error {
			for i, h := range hist {
				if h.a.TypeUrl != h.url || !bytes.Equal(h.a.Value, h.val) {
					return fmt.Errorf("the Any produced by pack #%d (%s) changed %s: value was %d bytes %s, is now %d bytes %s", i, h.what, after, len(h.val), trunc(hexs(h.val), 40), len(h.a.Value), trunc(hexs(h.a.Value), 40))
				}
			}
			return nil
		}
		for i := range sizes {
			size, _ := strconv.Atoi(sizes[i])
			m := sizedMessage(c.arg("src"), size, byte(0xA0+i))
			want, err := proto.MarshalOptions{Deterministic: true}.Marshal(m)
			if err != nil {
				return fmt.Errorf("HARNESS: marshal failed: %v", err)
			}
			h := &packed{src: m, what: fmt.Sprintf("%s, %d bytes encoded", apis[i], len(want))}
			switch {
			case apis[i] == "new" && c.arg("opts") == "zero":
				if h.a, err = anyutil.New(m); err != nil {
					return fmt.Errorf("anyutil.New failed: %v", err)
				}
			case apis[i] == "reuse" && len(hist) > 0:
				// an earlier Any is packed into again: it legitimately changes, and
				// takes the place of its earlier entry in the history
				k := int(digest(c.arg("sizes"), fmt.Sprint(i)) % uint64(len(hist)))
				h.a = hist[k].a
				hist = append(hist[:k:k], hist[k+1:]...)
				if err := anyutil.MarshalFrom(h.a, m, opts); err != nil {
					return fmt.Errorf("anyutil.MarshalFrom into a used Any failed: %v", err)
				}
			default:
				h.a = &anypb.Any{}
				if err := anyutil.MarshalFrom(h.a, m, opts); err != nil {
					return fmt.Errorf("anyutil.MarshalFrom failed: %v", err)
				}
			}
			if !bytes.Equal(h.a.Value, want) {
				return fmt.Errorf("pack #%d (%s): value differs from the encoding of the source", i, h.what)
			}
			h.url, h.val = h.a.TypeUrl, append([]byte{}, h.a.Value...)
			hist = append(hist, h)
			if err := verify(fmt.Sprintf("when pack #%d (%s) ran", i, h.what)); err != nil {
				return err
			}
		}
		for i, h := range hist {
			u, err := anyutil.Unpack(h.a, nil, nil)
			if err != nil {
				return fmt.Errorf("Unpack of pack #%d failed: %v", i, err)
			}
			_ = u
			if err := verify(fmt.Sprintf("when pack #%d was unpacked", i)); err != nil {
				return err
			}
		}
		last := hist[len(hist)-1]
		if u, err := anyutil.Unpack(last.a, nil, nil); err != nil || !proto.Equal(u, last.src) {
			return fmt.Errorf("the last pack (%s) does not unpack to its source (err=%v)", last.what, err)
		}
		ctx.Nontrivial("sequence", c.arg("sizes"), c.arg("apis"), c.arg("src"), c.arg("opts"))
		return nil
	case "pack":
		var m proto.Message
		var wantCanon string
		if c.arg("wk") != "" {
			m = wellKnown(c.argInt("wk"), c.argI64("n"))
			wantCanon = model.Canon(m.ProtoReflect(), model.Same)
		} else {
			t, err := mustType(c.Type)
			if err != nil {
				return err
			}
			d, err := decodeD(t, unhex(c.Bytes))
			if err != nil {
				return nil
			}
			m = model.BuildP(t, d.ProtoReflect())
			if digest(c.Bytes, "dynsrc")%4 == 0 {
				m = d // the source is a dynamicpb message of the generated type's descriptor
				ctx.Label("pack: dynamicpb source")
			}
			wantCanon = canonD(d.ProtoReflect())
		}
		opts := c16opts(c.arg("opts"))
		full := string(m.ProtoReflect().Descriptor().FullName())
		var a *anypb.Any
		if c.arg("opts") == "zero" {
			var err error
			a, err = anyutil.New(m)
			if err != nil {
				return fmt.Errorf("anyutil.New(%s) failed: %v", full, err)
			}
		} else {
			// a reused destination: unrelated content, or the same type named in another spelling
			pre := []string{"sentinel", "type.googleapis.com/" + full, "example.org/x/" + full, full, "/" + full, "/other.Type"}
			a = &anypb.Any{TypeUrl: pre[digest(c.Bytes, c.arg("n"), c.arg("opts"))%uint64(len(pre))], Value: []byte{9, 9, 9, 9, 9, 9, 9, 9, 9, 9, 9, 9}}
			if err := anyutil.MarshalFrom(a, m, opts); err != nil {
				return fmt.Errorf("anyutil.MarshalFrom(%s) failed: %v", full, err)
			}
		}
		if a.TypeUrl != "/"+full {
			return fmt.Errorf("TypeUrl = %q, want %q", a.TypeUrl, "/"+full)
		}
		want, err := opts.Marshal(m)
		if err != nil {
			return fmt.Errorf("HARNESS: marshal failed: %v", err)
		}
		if opts.Deterministic {
			if !bytes.Equal(a.Value, want) {
				return fmt.Errorf("Value differs from opts.Marshal(m)")
			}
		} else {
			chk := m.ProtoReflect().New().Interface()
			if err := proto.Unmarshal(a.Value, chk); err != nil || model.Canon(chk.ProtoReflect(), model.Same) != wantCanon {
				return fmt.Errorf("Value does not decode to m (err=%v)", err)
			}
			if len(a.Value) != len(want) {
				return fmt.Errorf("Value has %d bytes, opts.Marshal(m) has %d", len(a.Value), len(want))
			}
		}
		// unpack through the type registry
		u1, err := anyutil.Unpack(a, nil, nil)
		if err != nil {
			return fmt.Errorf("Unpack (default resolvers) of a packed %s failed: %v", full, err)
		}
		if got := model.Canon(u1.ProtoReflect(), model.Same); got != wantCanon {
			return fmt.Errorf("Unpack (type registry) differs from m: %s", diffStr(got, wantCanon))
		}
		if u1.ProtoReflect().Descriptor().FullName() != protoreflect.FullName(full) {
			return fmt.Errorf("Unpack returned a %s", u1.ProtoReflect().Descriptor().FullName())
		}
		// unpack through the file registry (type absent from the type registry)
		u2, err := anyutil.Unpack(a, nil, &protoregistry.Types{})
		if err != nil {
			return fmt.Errorf("Unpack (file registry, empty type registry) of a packed %s failed: %v", full, err)
		}
		if got := model.Canon(u2.ProtoReflect(), model.Same); got != wantCanon {
			return fmt.Errorf("Unpack (file registry) differs from m: %s", diffStr(got, wantCanon))
		}
		if c.arg("wk") != "" {
			// extension fields are outside Canon: compare through deterministic bytes re-decoded with the global resolver
			rt2 := m.ProtoReflect().New().Interface()
			b2x, _ := det.Marshal(u2)
			if err := proto.Unmarshal(b2x, rt2); err != nil || !proto.Equal(rt2, m) {
				return fmt.Errorf("Unpack (file registry) of %s is not equal to the packed message (err=%v)", full, err)
			}
			if len(u2.ProtoReflect().GetUnknown()) != len(m.ProtoReflect().GetUnknown()) {
				return fmt.Errorf("Unpack (file registry) of %s left %d bytes unparsed as unknown fields, the packed message has %d", full, len(u2.ProtoReflect().GetUnknown()), len(m.ProtoReflect().GetUnknown()))
			}
		}
		b1, _ := det.Marshal(u1)
		b2, _ := det.Marshal(u2)
		if !bytes.Equal(b1, b2) {
			return fmt.Errorf("the two resolver paths disagree on deterministic bytes")
		}
		// a caller-supplied file registry whose descriptor for this name differs
		// from the global one (one extra field): the message must be built from
		// the descriptor that registry returns, on every call
		if cf, cmd := customFilesFor(m.ProtoReflect().Descriptor()); cf != nil {
			u4, err := anyutil.Unpack(a, cf, &protoregistry.Types{})
			if err != nil {
				return fmt.Errorf("Unpack (custom file registry, empty type registry) of a packed %s failed: %v", full, err)
			}
			if u4.ProtoReflect().Descriptor() != cmd {
				return fmt.Errorf("Unpack through a custom file registry did not build the message from that registry's descriptor for %s (fields: %d, registry's descriptor has %d)", full, u4.ProtoReflect().Descriptor().Fields().Len(), cmd.Fields().Len())
			}
			b4, _ := det.Marshal(u4)
			if !bytes.Equal(b4, b1) {
				return fmt.Errorf("Unpack through a custom file registry yields different bytes")
			}
			ctx.Label("pack: custom file registry path")
		}
		// what Unpack hands out belongs to the caller: changing it must not show in
		// a later Unpack of the same Any (through either path)
		for _, prev := range []proto.Message{u1, u2} {
			_ = safely(func() error {
				scribble(prev.ProtoReflect(), 0)
				wipe(prev.ProtoReflect(), 0)
				prev.ProtoReflect().SetUnknown(protoreflect.RawFields{0xf8, 0x7f, 0x2a})
				return nil
			})
		}
		for i, tr := range []protoregistry.MessageTypeResolver{nil, &protoregistry.Types{}} {
			again, err := anyutil.Unpack(a, nil, tr)
			if err != nil {
				return fmt.Errorf("a second Unpack of the same Any failed: %v", err)
			}
			if got := model.Canon(again.ProtoReflect(), model.Same); got != wantCanon {
				return fmt.Errorf("Unpack (%s) of the same Any after the caller changed the earlier result differs from the packed message: %s", []string{"type registry", "file registry"}[i], diffStr(got, wantCanon))
			}
		}
		u3, err := anyutil.Unpack(a, protoregistry.GlobalFiles, protoregistry.GlobalTypes)
		if err != nil || model.Canon(u3.ProtoReflect(), model.Same) != wantCanon {
			return fmt.Errorf("Unpack (explicit global resolvers) differs (err=%v)", err)
		}
		if len(a.Value) > 0 {
			ctx.Nontrivial("pack", full, c.arg("opts"), string(a.Value))
		}
		ctx.Label("pack opts=" + c.arg("opts"))
	case "alias":
		opts := c16opts(c.arg("opts"))
		dst := &anypb.Any{TypeUrl: c.arg("url"), Value: unhex(c.Bytes)}
		var src proto.Message
		switch shape := c.arg("shape"); shape {
		case "self":
			src = dst
		case "option":
			src = &typepb.Option{Name: "o", Value: dst}
		default:
			ht := model.TypeByName("verif.wkt2.Holder")
			if ht == nil {
				ctx.Label("alias: holder type not available")
				return nil
			}
			h := ht.New()
			hm := h.ProtoReflect()
			fds := hm.Descriptor().Fields()
			dv := protoreflect.ValueOfMessage(dst.ProtoReflect())
			switch shape {
			case "holder-singular":
				hm.Set(fds.ByName("any"), dv)
			case "holder-list":
				l := hm.Mutable(fds.ByName("anys")).List()
				l.Append(dv)
				l.Append(dv)
			case "holder-map":
				hm.Mutable(fds.ByName("any_by_name")).Map().Set(protoreflect.ValueOfString("k").MapKey(), dv)
			default:
				hm.Set(fds.ByName("one_any"), dv)
			}
			src = h
		}
		before := proto.Clone(src)
		wantURL := "/" + string(src.ProtoReflect().Descriptor().FullName())
		want, err := opts.Marshal(before)
		if err != nil {
			return fmt.Errorf("HARNESS: marshal failed: %v", err)
		}
		// the reference implementation on an equal but separate pair
		refDst := &anypb.Any{TypeUrl: c.arg("url"), Value: unhex(c.Bytes)}
		var refSrc proto.Message = proto.Clone(before)
		if c.arg("shape") == "self" {
			refSrc = refDst
		}
		if err := anypb.MarshalFrom(refDst, refSrc, opts); err != nil {
			ctx.Label("alias: reference rejects (not asserted)")
			return nil
		}
		if err := anyutil.MarshalFrom(dst, src, opts); err != nil {
			return fmt.Errorf("anyutil.MarshalFrom(dst, src) with src %s dst (%s) failed: %v", map[bool]string{true: "being", false: "holding"}[c.arg("shape") == "self"], c.arg("shape"), err)
		}
		if dst.TypeUrl != wantURL {
			return fmt.Errorf("alias %s: TypeUrl = %q, want %q", c.arg("shape"), dst.TypeUrl, wantURL)
		}
		got := before.ProtoReflect().New().Interface()
		if err := proto.Unmarshal(dst.Value, got); err != nil || !proto.Equal(got, before) {
			return fmt.Errorf("alias %s: the packed value is not the source as it was when MarshalFrom was called (err=%v): value %x, expected an encoding of %x", c.arg("shape"), err, dst.Value, want)
		}
		if opts.Deterministic && !bytes.Equal(dst.Value, want) {
			return fmt.Errorf("alias %s: Value %x differs from opts.Marshal(src before the call) %x", c.arg("shape"), dst.Value, want)
		}
		if len(dst.Value) != len(refDst.Value) {
			return fmt.Errorf("alias %s: Value has %d bytes, anypb.MarshalFrom on an equal pair gives %d", c.arg("shape"), len(dst.Value), len(refDst.Value))
		}
		ctx.Label("alias shape=" + c.arg("shape"))
		ctx.Nontrivial("alias", c.arg("shape"), c.arg("opts"), c.arg("url"), c.Bytes)
	case "hostile":
		if digest(c.Bytes, c.arg("url"), "nilany")%64 == 0 {
			// a nil *anypb.Any is an Any nobody filled in: an error, not a panic
			fr, tr, name := resolverCombo(c.argInt("resolvers"))
			var msg proto.Message
			var err error
			if perr := safely(func() error { msg, err = anyutil.Unpack(nil, fr, tr); return nil }); perr != nil {
				return fmt.Errorf("Unpack(nil Any, resolvers=%s) panicked: %v", name, perr)
			}
			if msg != nil || err == nil {
				return fmt.Errorf("Unpack(nil Any, resolvers=%s) returned (%v, %v): want an error", name, msg, err)
			}
			ctx.Label("hostile: nil Any")
		}
		url := string(unhex(c.arg("url")))
		a := &anypb.Any{TypeUrl: url, Value: unhex(c.Bytes)}
		fr, tr, name := resolverCombo(c.argInt("resolvers"))
		msg, err := func() (m proto.Message, e error) {
			defer func() {
				if r := recover(); r != nil {
					e = fmt.Errorf("PANIC: %v", r)
				}
			}()
			return anyutil.Unpack(a, fr, tr)
		}()
		if err != nil && strings.HasPrefix(err.Error(), "PANIC: ") {
			return fmt.Errorf("Unpack(url=%q, %d value bytes, resolvers=%s) panicked: %v", trunc(url, 100), len(a.Value), name, err)
		}
		if (msg == nil) == (err == nil) {
			return fmt.Errorf("Unpack(url=%q, resolvers=%s) returned (%v, %v): want a message xor an error", trunc(url, 100), name, msg, err)
		}
		if a.TypeUrl != url || !bytes.Equal(a.Value, unhex(c.Bytes)) {
			return fmt.Errorf("Unpack modified the Any")
		}
		if err == nil {
			ctx.Label("hostile: accepted")
			// an accepted value must be the decoding of the value bytes for the named type
			name := url[strings.LastIndex(url, "/")+1:]
			if msg.ProtoReflect().Descriptor().FullName() != protoreflect.FullName(name) {
				return fmt.Errorf("Unpack(url=%q) returned a %s", url, msg.ProtoReflect().Descriptor().FullName())
			}
		} else {
			ctx.Label("hostile: rejected")
		}
		ctx.Label("resolvers=" + name)
		if len(a.Value) > 0 || c.Type != "" {
			ctx.Nontrivial("hostile", c.arg("url"), c.Bytes, c.arg("resolvers"))
		}
	case "failpack":
		bad := string(unhex(c.arg("bad"))) + "\xff"
		var src proto.Message
		switch c.argInt("src") {
		case 0:
			src = nil
		case 1:
			src = wrapperspb.String(bad) // invalid UTF-8 in a proto3 string: marshal fails
		case 2:
			src = &descriptorpb.UninterpretedOption_NamePart{} // required fields unset
		case 3:
			src = &descriptorpb.UninterpretedOption{Name: []*descriptorpb.UninterpretedOption_NamePart{{}}}
		default:
			s, _ := structpb.NewStruct(map[string]interface{}{"k": "v"})
			s.Fields[bad] = structpb.NewStringValue(bad)
			src = s
		}
		if src != nil {
			if _, err := c16opts(c.arg("opts")).Marshal(src); err == nil {
				return nil // source does not fail to marshal after all
			}
		}
		dst := &anypb.Any{TypeUrl: "sentinel/url", Value: []byte{1, 2, 3}}
		err := func() (e error) {
			defer func() {
				if r := recover(); r != nil {
					e = fmt.Errorf("PANIC: %v", r)
				}
			}()
			return anyutil.MarshalFrom(dst, src, c16opts(c.arg("opts")))
		}()
		if err == nil {
			return fmt.Errorf("MarshalFrom of an unmarshalable source returned nil error")
		}
		if strings.HasPrefix(err.Error(), "PANIC: ") {
			return fmt.Errorf("MarshalFrom panicked: %v", err)
		}
		if dst.TypeUrl != "sentinel/url" || !bytes.Equal(dst.Value, []byte{1, 2, 3}) {
			return fmt.Errorf("failed pack modified the destination: %q %x", dst.TypeUrl, dst.Value)
		}
		if src == nil {
			if a, err := anyutil.New(nil); err == nil || a != nil {
				return fmt.Errorf("New(nil) = (%v, %v)", a, err)
			}
		} else if a, err := anyutil.New(src); c.arg("opts") == "zero" && (err == nil || a != nil) {
			return fmt.Errorf("New(unmarshalable) = (%v, %v)", a, err)
		}
		ctx.Nontrivial("failpack", c.arg("src"), c.arg("opts"), c.arg("bad"))
		ctx.Label("failpack src=" + c.arg("src"))
	default:
		return fmt.Errorf("HARNESS: unknown sub %q", c.Sub)
	}
	return nil
}

type fallbackResolver struct {
	first  *protoregistry.Files
	second protodesc.Resolver
}

func (r fallbackResolver) FindFileByPath(p string) (protoreflect.FileDescriptor, error) {
	if fd, err := r.first.FindFileByPath(p); err == nil {
		return fd, nil
	}
	return r.second.FindFileByPath(p)
}

func (r fallbackResolver) FindDescriptorByName(n protoreflect.FullName) (protoreflect.Descriptor, error) {
	if d, err := r.first.FindDescriptorByName(n); err == nil {
		return d, nil
	}
	return r.second.FindDescriptorByName(n)
}

var customFilesCache = map[protoreflect.FullName]*protoregistry.Files{}

// customFilesFor builds a file registry that holds md's file with one extra
// field added to md (number 536870000), so its descriptor for md's name is
// distinguishable from the global one. Top-level messages only.
func customFilesFor(md protoreflect.MessageDescriptor) (*protoregistry.Files, protoreflect.MessageDescriptor) {
	if _, nested := md.Parent().(protoreflect.MessageDescriptor); nested || md.Fields().ByNumber(536870000) != nil {
		return nil, nil
	}
	name := md.FullName()
	reg, ok := customFilesCache[name]
	if !ok {
		fdp := protodesc.ToFileDescriptorProto(md.ParentFile())
		for _, mp := range fdp.MessageType {
			if mp.GetName() == string(md.Name()) {
				mp.Field = append(mp.Field, &descriptorpb.FieldDescriptorProto{
					Name: proto.String("verif_extra"), Number: proto.Int32(536870000), JsonName: proto.String("verifExtra"),
					Label: descriptorpb.FieldDescriptorProto_LABEL_OPTIONAL.Enum(), Type: descriptorpb.FieldDescriptorProto_TYPE_STRING.Enum(),
				})
			}
		}
		reg = &protoregistry.Files{}
		fd, err := protodesc.NewFile(fdp, fallbackResolver{reg, protoregistry.GlobalFiles})
		if err != nil || reg.RegisterFile(fd) != nil {
			reg = nil
		}
		customFilesCache[name] = reg
	}
	if reg == nil {
		return nil, nil
	}
	d, err := reg.FindDescriptorByName(name)
	if err != nil {
		return nil, nil
	}
	return reg, d.(protoreflect.MessageDescriptor)
}
