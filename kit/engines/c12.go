package engines

import (
	"fmt"
	"go/ast"
	"go/parser"
	"go/token"
	"os"
	"strings"

	"google.golang.org/protobuf/proto"
	"google.golang.org/protobuf/types/descriptorpb"

	"verif/kit/plug"
	"verif/kit/schema"
)

// The C12 engine inside the test binary decides the response-level part of the
// property (the plugin answers every valid request, names its outputs, refuses
// unknown features with an error, stays silent for proto2 and unrequested
// files). Compilation of the outputs and the behavioural smoke pass over the
// generated types are orchestrated by the driver (c12driver.py), which merges
// everything into one evidence file.
func init() {
	register(&Engine{
		ID:   "C12",
		Desc: "generator is total on proto3 schemas and its output compiles and works",
		Rule: "programs = fixed schema matrix (every kind x singular/packed/unpacked/oneof member, all 204 map key x value pairs, field numbers at every tag-width boundary, nesting and recursion in every position, imports across Go packages, well-known types, name-collision cases, custom options + service) + N random proto3 schemas drawn by rapid per seed (valid by construction, re-validated with protodesc); each is run through the plugin binary built from the working tree with parameter strings {default, features=all, features=fast+protoc, features=protoc, features=fast, paths=source_relative, M mapping, pool=}; oracle: exit 0, no response error, one output per requested proto3 file, expected output name, nothing for proto2 / unrequested files, response error (no files, no crash) for unknown features; the driver then compiles every output (Go compiler as oracle) and runs a smoke pass of the C01-C10/C14/C19 engines over every generated type. Non-trivial: schema with >= 1 message having >= 1 field; distinct by digest of (schema, parameter).",
		Run:  runC12, Replay: replayC12,
		Assumptions: []string{"groups and proto3-optional are outside the stated subset and never generated", "field name proto_reflect and case-insensitive duplicate Go names are excluded: upstream protoc-gen-go cannot compile them either"},
	})
}

var c12Params = []string{"", "features=all", "features=fast+protoc", "features=protoc+fast", "features=protoc", "features=fast", "paths=source_relative", "pool=verifrun/gen/kinds.Child", "Mverif/impa.proto=verifrun/gen/impa", "module=verifrun/gen", "paths=source_relative,features=fast+protoc",
	// valid names reaching one feature twice
	"features=all+fast", "features=fast+protoc+fast", "features=all+all", "features=protoc+all"}

func c12Units(ctx *Ctx) []*schema.Unit {
	units := schema.FixedCorpus()
	n := envInt("VERIF_NRANDOM", 2)
	for i := 0; i < n; i++ {
		units = append(units, schema.RandomUnit(ctx.Seed, i, ctx.AvoidSet()))
	}
	return units
}

func runC12(ctx *Ctx) {
	bin := os.Getenv("VERIF_PLUGIN")
	if bin == "" {
		fmt.Println("HARNESS-ERROR VERIF_PLUGIN not set")
		ctx.T.Fail()
		return
	}
	units := c12Units(ctx)
	idx := 0
	for ui, u := range units {
		for pi := range c12Params {
			idx++
			if idx%ctx.NShards != ctx.Shard {
				continue
			}
			c := &Case{Sub: "request", Args: map[string]string{"unit": u.Name, "unit_index": fmt.Sprint(ui), "param": c12Params[pi], "nrandom": fmt.Sprint(envInt("VERIF_NRANDOM", 2)), "seed": fmt.Sprint(ctx.Seed)}}
			ctx.Eval(1)
			if err := safely(func() error { return checkC12(ctx, c, units) }); err != nil {
				if strings.HasPrefix(err.Error(), "HARNESS") {
					fmt.Printf("HARNESS-ERROR %v\n", err)
				} else if kf := c12Known(ctx, u.Name, err.Error()); kf != "" {
					ctx.Label("known finding hit: " + kf)
				} else {
					b, _ := proto.MarshalOptions{Deterministic: true}.Marshal(u.File.P)
					c.Bytes = hexs(b)
					ctx.Violation(c, err.Error())
				}
				ctx.T.Fail()
			} else {
				ctx.Sample(c)
			}
		}
	}
	if ctx.Shard == 0 {
		for _, sub := range []string{"unknown-feature", "proto2", "unrequested", "bad-input"} {
			c := &Case{Sub: sub, Args: map[string]string{"seed": fmt.Sprint(ctx.Seed)}}
			ctx.Eval(1)
			if err := safely(func() error { return checkC12(ctx, c, units) }); err != nil {
				ctx.Violation(c, err.Error())
				ctx.T.Fail()
			} else {
				ctx.Nontrivial("special", sub)
				ctx.Sample(c)
			}
		}
	}
}

// c12Known maps a failing unit to a listed known-finding class, if any.
func c12Known(ctx *Ctx, unit, msg string) string {
	for class := range ctx.AvoidSet() {
		switch class {
		case "fd_name_collision":
			if unit == "fdnames" {
				return class
			}
		case "oneof_method_name":
			if strings.HasPrefix(unit, "oname") {
				return class
			}
		case "sint_oneof":
			if unit == "osint" {
				return class
			}
		}
	}
	return ""
}

func replayC12(ctx *Ctx, c *Case) error {
	return checkC12(ctx, c, nil)
}

func universeOf(units []*schema.Unit, extra ...*descriptorpb.FileDescriptorProto) *plug.Universe {
	var protos []*descriptorpb.FileDescriptorProto
	for _, u := range units {
		protos = append(protos, u.File.P)
	}
	return plug.NewUniverse(append(protos, extra...)...)
}

func checkC12(ctx *Ctx, c *Case, units []*schema.Unit) error {
	bin := os.Getenv("VERIF_PLUGIN")
	if bin == "" {
		return fmt.Errorf("HARNESS: VERIF_PLUGIN not set")
	}
	if units == nil {
		units = schema.FixedCorpus()
		for i := 0; i < c.argInt("nrandom"); i++ {
			units = append(units, schema.RandomUnit(uint64(c.argInt("seed")), i, ctx.AvoidSet()))
		}
	}
	uni := universeOf(units)
	switch c.Sub {
	case "request":
		var u *schema.Unit
		for _, x := range units {
			if x.Name == c.arg("unit") {
				u = x
			}
		}
		if u == nil {
			return fmt.Errorf("HARNESS: unit %s not found", c.arg("unit"))
		}
		name := u.File.P.GetName()
		if _, err := uni.Validate(name); err != nil {
			return fmt.Errorf("HARNESS: schema is not valid proto3: %v", err)
		}
		param := c.arg("param")
		req, err := uni.Request(param, name)
		if err != nil {
			return fmt.Errorf("HARNESS: %v", err)
		}
		res, err := plug.Run(bin, req, nil)
		if err != nil {
			return fmt.Errorf("plugin did not answer with a CodeGeneratorResponse (param %q): %v", param, err)
		}
		if res.ExitCode != 0 {
			return fmt.Errorf("plugin crashed (exit %d) on a valid proto3 schema (param %q): %s", res.ExitCode, param, trunc(res.Stderr, 800))
		}
		if res.Resp.Error != nil {
			return fmt.Errorf("plugin answered a valid proto3 schema with an error (param %q): %s", param, trunc(res.Resp.GetError(), 800))
		}
		if param == "features=protoc" || param == "features=fast" {
			// a single feature cannot yield a compilable package on its own (the
			// struct comes from one, ProtoReflect from the other); whether the
			// plugin emits a partial file or nothing is not part of the
			// property: only "no crash, no error" is asserted here
			ctx.Label(fmt.Sprintf("observed, not asserted: %s alone emits %d file(s)", param, len(res.Resp.File)))
			ctx.Nontrivial("request", u.Name, param)
			return nil
		}
		if len(res.Resp.File) != 1 {
			return fmt.Errorf("plugin produced %d files for one requested proto3 file (param %q)", len(res.Resp.File), param)
		}
		gp := u.File.P.GetOptions().GetGoPackage()
		if i := strings.Index(gp, ";"); i >= 0 {
			gp = gp[:i]
		}
		base := strings.TrimSuffix(name[strings.LastIndex(name, "/")+1:], ".proto")
		wantName := gp + "/" + base + ".pulsar.go"
		if strings.Contains(param, "paths=source_relative") {
			wantName = strings.TrimSuffix(name, ".proto") + ".pulsar.go"
		}
		if param == "module=verifrun/gen" {
			wantName = strings.TrimPrefix(wantName, "verifrun/gen/")
		}
		if got := res.Resp.File[0].GetName(); got != wantName {
			return fmt.Errorf("output file is named %q, want %q (param %q)", got, wantName, param)
		}
		content := res.Resp.File[0].GetContent()
		if !strings.HasPrefix(content, "// Code generated by protoc-gen-go-pulsar. DO NOT EDIT.") {
			return fmt.Errorf("output does not start with the generated-code header")
		}
		if dup := duplicateDecl(content); dup != "" && strings.Count(param, "+") > 0 && param != "features=fast+protoc" && param != "features=protoc+fast" {
			// judged against the same unit under features=all (a unit that is a listed
			// known finding may declare a name twice there as well)
			breq, err := uni.Request("features=all", name)
			if err != nil {
				return fmt.Errorf("HARNESS: %v", err)
			}
			if bres, err := plug.Run(bin, breq, nil); err == nil && bres.Resp.Error == nil && len(bres.Resp.File) == 1 && duplicateDecl(bres.Resp.File[0].GetContent()) == "" {
				return fmt.Errorf("param %q: the output %s (with features=all it does not): it cannot compile", param, dup)
			}
		}
		hasFast := strings.Contains(content, "fastReflection_")
		hasProtoc := strings.Contains(content, "protoimpl.EnforceVersion")
		nmsg := len(u.File.P.MessageType)
		wantFast := param != "features=protoc" && nmsg > 0
		wantProtoc := param != "features=fast"
		if hasFast != wantFast || hasProtoc != wantProtoc {
			return fmt.Errorf("param %q: fast-reflection code present=%v (want %v), protoc-gen-go code present=%v (want %v)", param, hasFast, wantFast, hasProtoc, wantProtoc)
		}
		nontrivial := false
		for _, m := range u.File.P.MessageType {
			nontrivial = nontrivial || len(m.Field) > 0
		}
		if nontrivial {
			ctx.Nontrivial("request", u.Name, param, string(c.Bytes))
			h := sha(content)
			ctx.Nontrivial("content", h)
		}
		for _, l := range u.Label {
			ctx.Label("schema: " + l)
		}
		ctx.Label("param=" + param)
	case "unknown-feature":
		for _, param := range []string{"features=nosuch", "features=fast+nosuch", "features=", "features=protoc+FAST",
			"features=all+nosuch", "features=nosuch+all", "features=all+", "features=fast+protoc+nosuch"} {
			req, _ := uni.Request(param, "verif/kinds.proto")
			res, err := plug.Run(bin, req, nil)
			if err != nil {
				return fmt.Errorf("plugin did not answer a request with an unknown feature name (%q): %v", param, err)
			}
			if res.ExitCode != 0 {
				return fmt.Errorf("plugin crashed (exit %d) on %q instead of answering with an error: %s", res.ExitCode, param, trunc(res.Stderr, 400))
			}
			if res.Resp.Error == nil || res.Resp.GetError() == "" {
				return fmt.Errorf("plugin accepted unknown feature request %q without an error", param)
			}
			if len(res.Resp.File) != 0 {
				return fmt.Errorf("plugin produced files for the unserviceable request %q", param)
			}
		}
	case "proto2":
		p2 := schema.NewFile("verif/legacy.proto", "verif.legacy", schema.GoRoot+"legacy")
		p2.P.Syntax = proto.String("proto2")
		m := p2.Msg("Old")
		m.F("a", 1, schema.S(schema.Int32))
		m.F("b", 2, schema.S(schema.String))
		u2 := universeOf(units, p2.P)
		// a request that cannot be served stays unserviceable when only proto2 files are asked for
		for _, param := range []string{"features=nosuch", "features=fast+nosuch", "features=all+nosuch"} {
			req, err := u2.Request(param, "verif/legacy.proto")
			if err != nil {
				return fmt.Errorf("HARNESS: %v", err)
			}
			res, err := plug.Run(bin, req, nil)
			if err != nil || res.ExitCode != 0 {
				return fmt.Errorf("plugin failed on a proto2-only request with %q: %v exit=%d %s", param, err, res.ExitCode, trunc(res.Stderr, 400))
			}
			if res.Resp.Error == nil || res.Resp.GetError() == "" {
				return fmt.Errorf("plugin accepted unknown feature request %q without an error when only a proto2 file was to be generated", param)
			}
		}
		req, err := u2.Request("", "verif/legacy.proto", "verif/impa.proto")
		if err != nil {
			return fmt.Errorf("HARNESS: %v", err)
		}
		res, err := plug.Run(bin, req, nil)
		if err != nil || res.ExitCode != 0 {
			return fmt.Errorf("plugin failed on a request that includes a proto2 file: %v exit=%d %s", err, res.ExitCode, trunc(res.Stderr, 400))
		}
		if res.Resp.Error != nil {
			return fmt.Errorf("plugin reports an error for a request that includes a proto2 file: %s", res.Resp.GetError())
		}
		for _, f := range res.Resp.File {
			if strings.Contains(f.GetName(), "legacy") {
				return fmt.Errorf("plugin produced output %s for a proto2 file", f.GetName())
			}
		}
		if len(res.Resp.File) != 1 {
			return fmt.Errorf("request with one proto3 and one proto2 file produced %d outputs, want 1", len(res.Resp.File))
		}
	case "unrequested":
		req, err := uni.Request("", "verif/impb.proto") // proto_file also holds verif/impa.proto
		if err != nil {
			return fmt.Errorf("HARNESS: %v", err)
		}
		res, err := plug.Run(bin, req, nil)
		if err != nil || res.ExitCode != 0 || res.Resp.Error != nil {
			return fmt.Errorf("plugin failed: %v", err)
		}
		if len(res.Resp.File) != 1 || !strings.Contains(res.Resp.File[0].GetName(), "impb") {
			var names []string
			for _, f := range res.Resp.File {
				names = append(names, f.GetName())
			}
			return fmt.Errorf("only verif/impb.proto was requested but the outputs are %v", names)
		}
	case "bad-input":
		// not a CodeGeneratorRequest at all: the plugin may fail, but must not hang
		res, err := plug.RunRaw(bin, []byte{0xff, 0xff, 0xff}, nil)
		if err == nil && res.ExitCode == 0 && res.Resp != nil && res.Resp.Error == nil && len(res.Resp.File) > 0 {
			return fmt.Errorf("plugin produced files from garbage input")
		}
	default:
		return fmt.Errorf("HARNESS: unknown sub %q", c.Sub)
	}
	return nil
}

func sha(s string) string { return fmt.Sprintf("%016x", digest(s)) }

// duplicateDecl parses generated source and names a package-level identifier or
// method that is declared twice ("" if none, or if the source does not parse -
// the plugin formats its output, so that is reported elsewhere).
func duplicateDecl(src string) string {
	f, err := parser.ParseFile(token.NewFileSet(), "out.go", src, parser.SkipObjectResolution)
	if err != nil {
		return ""
	}
	seen := map[string]bool{}
	add := func(name string) string {
		if name == "_" || name == "init" {
			return ""
		}
		if seen[name] {
			return "declares " + name + " twice"
		}
		seen[name] = true
		return ""
	}
	for _, d := range f.Decls {
		switch d := d.(type) {
		case *ast.FuncDecl:
			name := d.Name.Name
			if d.Recv != nil && len(d.Recv.List) == 1 {
				rt := d.Recv.List[0].Type
				if st, ok := rt.(*ast.StarExpr); ok {
					rt = st.X
				}
				if id, ok := rt.(*ast.Ident); ok {
					name = id.Name + "." + name
				}
			}
			if r := add(name); r != "" {
				return r
			}
		case *ast.GenDecl:
			for _, sp := range d.Specs {
				switch sp := sp.(type) {
				case *ast.TypeSpec:
					if r := add(sp.Name.Name); r != "" {
						return r
					}
				case *ast.ValueSpec:
					for _, n := range sp.Names {
						if r := add(n.Name); r != "" {
							return r
						}
					}
				}
			}
		}
	}
	return ""
}
