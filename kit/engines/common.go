package engines

import (
	"encoding/hex"
	"fmt"
	"strings"

	"google.golang.org/protobuf/proto"
	"google.golang.org/protobuf/reflect/protoreflect"
	"google.golang.org/protobuf/types/dynamicpb"
	"pgregory.net/rapid"

	"verif/kit/model"
)

// types returns the message types this shard is responsible for.
func (c *Ctx) types() []*model.Type {
	var out []*model.Type
	i := 0
	for _, t := range model.TypesNoBulk() {
		if c.OnlyFresh && !t.Fresh {
			continue
		}
		if only := onlyType(); only != "" && !strings.Contains(string(t.Name), only) {
			continue
		}
		if i%c.NShards == c.Shard {
			out = append(out, t)
		}
		i++
	}
	return out
}

func (c *Ctx) streamCfg(unknown, canonical bool) *model.StreamCfg {
	return &model.StreamCfg{
		MaxRecords: 14, MaxDepth: 3, Unknown: unknown, Canonical: canonical,
		Avoid: c.avoid, Excluded: map[string]int{}, Labels: map[string]int{},
	}
}

func hexs(b []byte) string { return hex.EncodeToString(b) }
func unhex(s string) []byte {
	b, err := hex.DecodeString(s)
	if err != nil {
		panic("harness: bad hex in case: " + err.Error())
	}
	return b
}

// decodeD decodes b with the reference reflection-driven decoder.
func decodeD(t *model.Type, b []byte) (*dynamicpb.Message, error) {
	d := t.NewD()
	err := proto.UnmarshalOptions{AllowPartial: true}.Unmarshal(b, d)
	if err == nil && model.HasRequired(t.Desc) {
		// a value with an unset required field (proto2 types embedded in a proto3
		// schema) is not a value the properties quantify over: only C10's checkinit
		// sub looks at those (decodePartialD)
		if e := proto.CheckInitialized(d); e != nil {
			return d, fmt.Errorf("partial value: %w", e)
		}
	}
	return d, err
}

// decodePartialD is decodeD without the initialisation test.
func decodePartialD(t *model.Type, b []byte) (*dynamicpb.Message, error) {
	d := t.NewD()
	err := proto.UnmarshalOptions{AllowPartial: true}.Unmarshal(b, d)
	return d, err
}

func mustType(name string) (*model.Type, error) {
	t := model.TypeByName(name)
	if t == nil {
		return nil, fmt.Errorf("HARNESS: type %s not linked into this binary", name)
	}
	return t, nil
}

var det = proto.MarshalOptions{Deterministic: true}

func canonD(m protoreflect.Message) string { return model.Canon(m, model.Same) }

// canonI reads a generated struct with protobuf-go's own reflection only.
func canonI(m proto.Message) string { return model.Canon(m.ProtoReflect(), model.Impl) }

// canonP reads a generated struct through the reflection under test.
func canonP(m proto.Message) string { return model.Canon(m.ProtoReflect(), model.Same) }

func diffStr(a, b string) string {
	i := 0
	for i < len(a) && i < len(b) && a[i] == b[i] {
		i++
	}
	lo := i - 30
	if lo < 0 {
		lo = 0
	}
	return fmt.Sprintf("first difference at %d: ...%s | ...%s", i, trunc(a[lo:], 160), trunc(b[lo:], 160))
}

// genTypeStream draws a well-typed stream for t, keeps it only if the
// reference decoder accepts it, and merges the generator's feature labels.
func (c *Ctx) genTypeStream(rt *rapid.T, t *model.Type, unknown, canonical bool) ([]byte, *dynamicpb.Message) {
	cfg := c.streamCfg(unknown, canonical)
	b := cfg.GenStream(rt, t.Desc, 0)
	d, err := decodeD(t, b)
	c.MergeExcluded(cfg.Excluded)
	if err != nil {
		c.Label("discarded: reference decoder rejected generated stream")
		c.Note("reference rejected generated stream for %s: %v (%s)", t.Name, err, trunc(hexs(b), 200))
		return nil, nil
	}
	c.MergeLabels(cfg.Labels)
	if b == nil {
		b = []byte{}
	}
	return b, d
}

func onlyType() string { return envStr("VERIF_ONLY_TYPE") }

// requiredErr reports whether err is protobuf-go's complaint about an unset
// required field. Messages of proto2 types with required fields (embedded in
// proto3 schemas) cannot be marshalled while empty; where a check asserts that
// marshalling succeeds, that outcome is the reference's too and is only counted.
func requiredErr(err error) bool {
	return err != nil && strings.Contains(err.Error(), "required field")
}
