package engines

import (
	"bytes"
	"fmt"
	"reflect"

	"google.golang.org/protobuf/encoding/protojson"
	"google.golang.org/protobuf/encoding/prototext"
	"google.golang.org/protobuf/proto"
	"google.golang.org/protobuf/reflect/protoreflect"
	"google.golang.org/protobuf/types/dynamicpb"
	"pgregory.net/rapid"

	"verif/kit/model"
)

func init() {
	register(&Engine{
		ID:   "C09",
		Desc: "nil and read-only empty messages are safe to read",
		Rule: "per generated type, a finite matrix enumerated completely: sources of emptiness {typed nil pointer, Type().Zero(), Get(unset message field).Message() for every message-typed field incl. oneof members, chained to depth 3, nil list element, nil map value, oneof wrapper holding nil, Get(unset list/map)} x every field and oneof of the empty value x read operations {Has, Get (+ every read method of the returned List/Map/Message), Range, WhichOneof, GetUnknown, IsValid, Descriptor, Type} x library calls {Size, Marshal, MarshalAppend, Equal (self / new / populated), Clone, Merge-from, CheckInitialized, protojson, prototext, String}; oracle: no panic and the same observable result as dynamicpb's read-only zero message; store attempts (Set, Mutable, SetUnknown with data, List.Append/AppendMutable, Map.Set/Mutable) must panic. A rapid arm repeats the battery on unset fields of randomly populated parents. Non-trivial: every (source, field, operation) triple; distinct by digest of the triple.",
		Run:  runC09, Replay: replayC09,
		Assumptions: []string{"reference = dynamicpb's Zero() message; Clear and SetUnknown(empty) on an empty message are not asserted (references disagree)"},
	})
}

type emptySrc struct {
	how string
	m   protoreflect.Message
}

// emptySources lists every way an empty read-only message arises from type t.
func emptySources(t *model.Type) []emptySrc {
	var out []emptySrc
	out = append(out, emptySrc{"typed nil pointer", t.Nil().ProtoReflect()})
	// decoding into a nil message cannot store anything; whatever the codec does
	// with the input (ignore it, report it) must leave every nil message empty
	func() {
		in := model.AllFieldsStream(t.Desc)
		for _, o := range []proto.UnmarshalOptions{{Merge: true}, {Merge: true, DiscardUnknown: true}, {}} {
			func() {
				defer func() { _ = recover() }() // whether this panics is judged by sub nildecode
				_ = o.Unmarshal(in, t.Nil())
			}()
		}
	}()
	out = append(out, emptySrc{"typed nil pointer after decodes into a nil message were attempted", t.Nil().ProtoReflect()})
	out = append(out, emptySrc{"Type().Zero()", t.New().ProtoReflect().Type().Zero()})
	fresh := t.New().ProtoReflect()
	fds := t.Desc.Fields()
	for i := 0; i < fds.Len(); i++ {
		fd := fds.Get(i)
		if fd.Message() == nil || fd.IsList() || fd.IsMap() {
			continue
		}
		e := fresh.Get(fd).Message()
		out = append(out, emptySrc{fmt.Sprintf("Get(unset %s).Message()", fd.Name()), e})
		// chains through unpopulated message fields, depth 3
		cur := e
		path := string(fd.Name())
		for d := 0; d < 2; d++ {
			var next protoreflect.FieldDescriptor
			cfs := cur.Descriptor().Fields()
			for j := 0; j < cfs.Len(); j++ {
				if f := cfs.Get(j); f.Message() != nil && !f.IsList() && !f.IsMap() {
					next = f
					break
				}
			}
			if next == nil {
				break
			}
			cur = cur.Get(next).Message()
			path += "." + string(next.Name())
			out = append(out, emptySrc{fmt.Sprintf("chain Get(%s)", path), cur})
		}
	}
	// nil list element / nil map value / oneof wrapper holding nil, by Go reflection
	p := t.New()
	rv := reflect.ValueOf(p).Elem()
	rt := rv.Type()
	for i := 0; i < rt.NumField(); i++ {
		f := rt.Field(i)
		if f.PkgPath != "" {
			continue
		}
		fv := rv.Field(i)
		switch {
		case fv.Kind() == reflect.Slice && fv.Type().Elem().Kind() == reflect.Ptr && fv.Type().Elem().Implements(reflect.TypeOf((*proto.Message)(nil)).Elem()):
			fv.Set(reflect.MakeSlice(fv.Type(), 1, 1)) // [nil]
		case fv.Kind() == reflect.Map && fv.Type().Elem().Kind() == reflect.Ptr && fv.Type().Elem().Implements(reflect.TypeOf((*proto.Message)(nil)).Elem()):
			mp := reflect.MakeMap(fv.Type())
			mp.SetMapIndex(reflect.Zero(fv.Type().Key()), reflect.Zero(fv.Type().Elem()))
			fv.Set(mp)
		}
	}
	pm := p.ProtoReflect()
	for i := 0; i < fds.Len(); i++ {
		fd := fds.Get(i)
		switch {
		case fd.IsList() && fd.Message() != nil:
			if l := pm.Get(fd).List(); l.Len() == 1 {
				out = append(out, emptySrc{fmt.Sprintf("nil element of list %s", fd.Name()), l.Get(0).Message()})
			}
		case fd.IsMap() && fd.MapValue().Message() != nil:
			pm.Get(fd).Map().Range(func(k protoreflect.MapKey, v protoreflect.Value) bool {
				out = append(out, emptySrc{fmt.Sprintf("nil value of map %s", fd.Name()), v.Message()})
				return false
			})
		}
	}
	// oneof wrapper holding nil: Set the member to a new message, then nil the inner pointer
	for i := 0; i < fds.Len(); i++ {
		fd := fds.Get(i)
		if fd.ContainingOneof() == nil || fd.Message() == nil {
			continue
		}
		q := t.New()
		q.ProtoReflect().Mutable(fd)
		for _, s := range model.NilSites(q) {
			s.Apply()
		}
		out = append(out, emptySrc{fmt.Sprintf("oneof wrapper %s holding nil", fd.Name()), q.ProtoReflect().Get(fd).Message()})
	}
	return out
}

func mustNotPanic(what string, f func() error) (err error) {
	defer func() {
		if r := recover(); r != nil {
			err = fmt.Errorf("%s panicked: %v", what, r)
		}
	}()
	return f()
}

func mustPanic(what string, f func()) (err error) {
	defer func() {
		if r := recover(); r == nil {
			err = fmt.Errorf("%s did not panic: data stored into an empty read-only value would be silently dropped", what)
		}
	}()
	f()
	return nil
}

// someValue returns a non-default value assignable to a scalar field.
func someValue(fd protoreflect.FieldDescriptor) protoreflect.Value {
	switch fd.Kind() {
	case protoreflect.BoolKind:
		return protoreflect.ValueOfBool(true)
	case protoreflect.EnumKind:
		return protoreflect.ValueOfEnum(1)
	case protoreflect.Int32Kind, protoreflect.Sint32Kind, protoreflect.Sfixed32Kind:
		return protoreflect.ValueOfInt32(7)
	case protoreflect.Int64Kind, protoreflect.Sint64Kind, protoreflect.Sfixed64Kind:
		return protoreflect.ValueOfInt64(7)
	case protoreflect.Uint32Kind, protoreflect.Fixed32Kind:
		return protoreflect.ValueOfUint32(7)
	case protoreflect.Uint64Kind, protoreflect.Fixed64Kind:
		return protoreflect.ValueOfUint64(7)
	case protoreflect.FloatKind:
		return protoreflect.ValueOfFloat32(1.5)
	case protoreflect.DoubleKind:
		return protoreflect.ValueOfFloat64(1.5)
	case protoreflect.StringKind:
		return protoreflect.ValueOfString("x")
	case protoreflect.BytesKind:
		return protoreflect.ValueOfBytes([]byte{1})
	}
	return protoreflect.Value{}
}

// emptyBattery runs every read and library call on the empty message e and
// compares with the reference zero message. count receives one tick per
// (field, operation) evaluated.
func emptyBattery(e protoreflect.Message, tick func(op string)) error {
	md := e.Descriptor()
	ref := dynamicpb.NewMessageType(md).Zero()
	tr := func(op string, f func() error) error {
		tick(op)
		return mustNotPanic(op, f)
	}
	if err := tr("IsValid", func() error {
		if e.IsValid() {
			return fmt.Errorf("IsValid() = true on an empty read-only message")
		}
		return nil
	}); err != nil {
		return err
	}
	if err := tr("Descriptor/Type", func() error {
		if e.Descriptor().FullName() != md.FullName() || e.Type().Descriptor().FullName() != md.FullName() {
			return fmt.Errorf("Descriptor/Type mismatch")
		}
		return nil
	}); err != nil {
		return err
	}
	if err := tr("Range", func() error {
		n := 0
		e.Range(func(protoreflect.FieldDescriptor, protoreflect.Value) bool { n++; return true })
		if n != 0 {
			return fmt.Errorf("Range visited %d fields of an empty message", n)
		}
		return nil
	}); err != nil {
		return err
	}
	if err := tr("GetUnknown", func() error {
		if len(e.GetUnknown()) != 0 {
			return fmt.Errorf("GetUnknown non-empty")
		}
		return nil
	}); err != nil {
		return err
	}
	for i := 0; i < md.Oneofs().Len(); i++ {
		od := md.Oneofs().Get(i)
		if err := tr("WhichOneof "+string(od.Name()), func() error {
			if fd := e.WhichOneof(od); fd != nil {
				return fmt.Errorf("WhichOneof(%s) = %s on an empty message", od.Name(), fd.Name())
			}
			return nil
		}); err != nil {
			return err
		}
	}
	fds := md.Fields()
	for i := 0; i < fds.Len(); i++ {
		fd := fds.Get(i)
		if err := tr("Has "+string(fd.Name()), func() error {
			if e.Has(fd) {
				return fmt.Errorf("Has(%s) = true on an empty message", fd.Name())
			}
			return nil
		}); err != nil {
			return err
		}
		if err := tr("Get "+string(fd.Name()), func() error {
			v, rv := e.Get(fd), ref.Get(fd)
			switch {
			case fd.IsList():
				l := v.List()
				if l.Len() != 0 || l.IsValid() {
					return fmt.Errorf("Get(%s): list Len=%d IsValid=%v, want empty read-only", fd.Name(), l.Len(), l.IsValid())
				}
			case fd.IsMap():
				mp := v.Map()
				if mp.Len() != 0 || mp.IsValid() {
					return fmt.Errorf("Get(%s): map Len=%d IsValid=%v, want empty read-only", fd.Name(), mp.Len(), mp.IsValid())
				}
				n := 0
				mp.Range(func(protoreflect.MapKey, protoreflect.Value) bool { n++; return true })
				k := fd.MapKey().Default().MapKey()
				if n != 0 || mp.Has(k) || mp.Get(k).IsValid() {
					return fmt.Errorf("Get(%s): empty map reports content", fd.Name())
				}
				mp.Clear(k) // clearing an absent key is a read-only no-op
			case fd.Message() != nil:
				m := v.Message()
				if m.IsValid() || m.Descriptor().FullName() != fd.Message().FullName() {
					return fmt.Errorf("Get(%s): want an empty read-only %s", fd.Name(), fd.Message().FullName())
				}
			case fd.Kind() == protoreflect.BytesKind:
				if len(v.Bytes()) != 0 {
					return fmt.Errorf("Get(%s): non-empty default bytes", fd.Name())
				}
			case fd.Kind() == protoreflect.FloatKind || fd.Kind() == protoreflect.DoubleKind:
				if v.Float() != rv.Float() {
					return fmt.Errorf("Get(%s) = %v, reference default %v", fd.Name(), v.Float(), rv.Float())
				}
			default:
				if !v.Equal(rv) {
					return fmt.Errorf("Get(%s) = %v, reference default %v", fd.Name(), v.Interface(), rv.Interface())
				}
			}
			return nil
		}); err != nil {
			return err
		}
		// stores must panic
		tick("store " + string(fd.Name()))
		var perr error
		switch {
		case fd.IsList():
			perr = mustPanic(fmt.Sprintf("Mutable(%s) on an empty read-only message", fd.Name()), func() { e.Mutable(fd) })
			if perr == nil {
				l := e.Get(fd).List()
				if fd.Message() != nil {
					perr = mustPanic(fmt.Sprintf("AppendMutable on the empty list view of %s", fd.Name()), func() { l.AppendMutable() })
				} else {
					perr = mustPanic(fmt.Sprintf("Append on the empty list view of %s", fd.Name()), func() { l.Append(someValue(fd)) })
				}
			}
		case fd.IsMap():
			perr = mustPanic(fmt.Sprintf("Mutable(%s) on an empty read-only message", fd.Name()), func() { e.Mutable(fd) })
			if perr == nil {
				mp := e.Get(fd).Map()
				k := fd.MapKey().Default().MapKey()
				if fd.MapValue().Message() != nil {
					perr = mustPanic(fmt.Sprintf("Map.Mutable on the empty map view of %s", fd.Name()), func() { mp.Mutable(k) })
				} else {
					perr = mustPanic(fmt.Sprintf("Map.Set on the empty map view of %s", fd.Name()), func() { mp.Set(k, someValue(fd.MapValue())) })
				}
			}
		case fd.Message() != nil:
			perr = mustPanic(fmt.Sprintf("Mutable(%s) on an empty read-only message", fd.Name()), func() { e.Mutable(fd) })
		default:
			perr = mustPanic(fmt.Sprintf("Set(%s) on an empty read-only message", fd.Name()), func() { e.Set(fd, someValue(fd)) })
		}
		if perr != nil {
			return perr
		}
	}
	tick("store unknown")
	if err := mustPanic("SetUnknown(data) on an empty read-only message", func() { e.SetUnknown(protoreflect.RawFields{0x08, 0x01}) }); err != nil {
		return err
	}
	// library calls
	pm := e.Interface()
	rm := ref.Interface()
	lib := []struct {
		name string
		f    func() error
	}{
		{"proto.Size", func() error {
			if n := proto.Size(pm); n != 0 {
				return fmt.Errorf("Size = %d", n)
			}
			return nil
		}},
		{"proto.Marshal", func() error {
			b, err := proto.Marshal(pm)
			if requiredErr(err) && model.HasRequired(e.Descriptor()) {
				// an empty message of a type with required fields: the reference refuses too
				if _, rerr := proto.Marshal(rm); requiredErr(rerr) {
					return nil
				}
			}
			if err != nil || len(b) != 0 {
				return fmt.Errorf("Marshal = %x, %v", b, err)
			}
			b, err = det.Marshal(pm)
			if err != nil || len(b) != 0 {
				return fmt.Errorf("deterministic Marshal = %x, %v", b, err)
			}
			return nil
		}},
		{"MarshalAppend", func() error {
			b, err := proto.MarshalOptions{}.MarshalAppend([]byte{1, 2, 3}, pm)
			if requiredErr(err) && model.HasRequired(e.Descriptor()) {
				if _, rerr := proto.Marshal(rm); requiredErr(rerr) {
					return nil
				}
			}
			if err != nil || !bytes.Equal(b, []byte{1, 2, 3}) {
				return fmt.Errorf("MarshalAppend = %x, %v", b, err)
			}
			return nil
		}},
		{"proto.Equal self", func() error {
			if got, want := proto.Equal(pm, pm), proto.Equal(rm, rm); got != want {
				return fmt.Errorf("Equal(self) = %v, reference %v", got, want)
			}
			return nil
		}},
		{"proto.Equal new", func() error {
			got := proto.Equal(pm, e.Type().New().Interface())
			want := proto.Equal(rm, ref.Type().New().Interface())
			got2 := proto.Equal(e.Type().New().Interface(), pm)
			if got != want || got2 != want {
				return fmt.Errorf("Equal(empty-read-only, new) = %v/%v, reference %v", got, got2, want)
			}
			return nil
		}},
		{"proto.Equal populated", func() error {
			pop := e.Type().New()
			rpop := ref.Type().New()
			if fds.Len() > 0 {
				pop.SetUnknown(protoreflect.RawFields{0xf8, 0x7f, 0x01})
				rpop.SetUnknown(protoreflect.RawFields{0xf8, 0x7f, 0x01})
			}
			if got, want := proto.Equal(pm, pop.Interface()), proto.Equal(rm, rpop.Interface()); got != want {
				return fmt.Errorf("Equal(empty, populated) = %v, reference %v", got, want)
			}
			return nil
		}},
		{"proto.Clone", func() error {
			c := proto.Clone(pm)
			if c == nil || proto.Size(c) != 0 {
				return fmt.Errorf("Clone of an empty message is not empty")
			}
			return nil
		}},
		{"proto.Merge from", func() error {
			dst := e.Type().New().Interface()
			proto.Merge(dst, pm)
			if proto.Size(dst) != 0 {
				return fmt.Errorf("Merge from an empty message changed the destination")
			}
			return nil
		}},
		{"proto.CheckInitialized", func() error {
			e1, e2 := proto.CheckInitialized(pm), proto.CheckInitialized(rm)
			if (e1 == nil) != (e2 == nil) {
				return fmt.Errorf("CheckInitialized = %v, reference %v", e1, e2)
			}
			return nil
		}},
		{"protojson.Marshal", func() error {
			got, err1 := protojson.Marshal(pm)
			want, err2 := protojson.Marshal(rm)
			if (err1 == nil) != (err2 == nil) || (err1 == nil && compactJSON(got) != compactJSON(want)) {
				return fmt.Errorf("protojson = %s (%v), reference %s (%v)", got, err1, want, err2)
			}
			return nil
		}},
		{"prototext.Marshal", func() error {
			got, err1 := prototext.Marshal(pm)
			want, err2 := prototext.Marshal(rm)
			if (err1 == nil) != (err2 == nil) || len(bytes.TrimSpace(got)) != len(bytes.TrimSpace(want)) {
				return fmt.Errorf("prototext = %q (%v), reference %q (%v)", got, err1, want, err2)
			}
			return nil
		}},
		{"String()", func() error {
			if s, ok := pm.(fmt.Stringer); ok {
				_ = s.String()
			}
			return nil
		}},
	}
	for _, l := range lib {
		if err := tr(l.name, l.f); err != nil {
			return err
		}
	}
	return nil
}

func compactJSON(b []byte) string {
	var out []byte
	for _, c := range b {
		if c != ' ' && c != '\n' && c != '\t' {
			out = append(out, c)
		}
	}
	return string(out)
}

func runC09(ctx *Ctx) {
	for _, t := range ctx.types() {
		srcs, err := func() (s []emptySrc, err error) {
			defer func() {
				if r := recover(); r != nil {
					err = fmt.Errorf("obtaining an empty value panicked: %v", r)
				}
			}()
			return emptySources(t), nil
		}()
		if err != nil {
			ctx.Violation(&Case{Sub: "matrix", Type: string(t.Name), Args: map[string]string{"source": "enumeration"}}, err.Error())
			ctx.T.Fail()
			continue
		}
		for si, s := range srcs {
			how := s.how
			err := emptyBattery(s.m, func(op string) {
				ctx.Eval(1)
				ctx.Nontrivial(string(t.Name), how, op)
			})
			ctx.Label("source: " + labelOf(how))
			if err != nil {
				ctx.Violation(&Case{Sub: "matrix", Type: string(t.Name), Args: map[string]string{"source": fmt.Sprint(si), "how": how}}, fmt.Sprintf("%s of %s: %v", how, t.Name, err))
				ctx.T.Fail()
				break
			}
		}
	}
	// a map entry whose value is a nil message: present for Has, Get, Len and Range alike
	for _, t := range ctx.types() {
		fds := t.Desc.Fields()
		for i := 0; i < fds.Len(); i++ {
			fd := fds.Get(i)
			if !fd.IsMap() || fd.MapValue().Message() == nil {
				continue
			}
			c := &Case{Sub: "nilmapvalue", Type: string(t.Name), Args: map[string]string{"field": fmt.Sprint(fd.Number())}}
			ctx.Eval(1)
			if err := safely(func() error { return replayC09(ctx, c) }); err != nil {
				ctx.Violation(c, err.Error())
				ctx.T.Fail()
			} else {
				ctx.Nontrivial(string(t.Name), "nilmapvalue", string(fd.Name()))
			}
		}
	}
	for _, t := range ctx.types() {
		if t.Desc.Fields().Len() == 0 {
			continue
		}
		c := &Case{Sub: "nildecode", Type: string(t.Name)}
		ctx.Eval(1)
		if err := safely(func() error { return replayC09(ctx, c) }); err != nil {
			ctx.Violation(c, err.Error())
			ctx.T.Fail()
		} else {
			ctx.Nontrivial(string(t.Name), "nildecode")
		}
	}
	for _, t := range ctx.types() {
		fds := t.Desc.Fields()
		for i := 0; i < fds.Len(); i++ {
			fd := fds.Get(i)
			if fd.ContainingOneof() == nil || fd.Message() == nil {
				continue
			}
			c := &Case{Sub: "nilwrapper", Type: string(t.Name), Args: map[string]string{"field": fmt.Sprint(fd.Number())}}
			ctx.Eval(1)
			if err := safely(func() error { return replayC09(ctx, c) }); err != nil {
				ctx.Violation(c, err.Error())
				ctx.T.Fail()
			} else {
				ctx.Nontrivial(string(t.Name), "nilwrapper", string(fd.Name()))
			}
		}
	}
	ctx.SetExhaustive(true)
	ctx.Note("the (source x field x operation) matrix is enumerated completely for every type; the rapid arm below samples populated parents")
	n := ctx.N(1500, 10000)
	for _, t := range ctx.types() {
		t := t
		hasMsg := false
		for i := 0; i < t.Desc.Fields().Len(); i++ {
			hasMsg = hasMsg || t.Desc.Fields().Get(i).Message() != nil
		}
		if !hasMsg {
			continue
		}
		ctx.CheckRapid(string(t.Name), n, func(rt *rapid.T) *Case {
			b, d := ctx.genTypeStream(rt, t, false, true)
			if d == nil {
				return nil
			}
			return &Case{Sub: "parent", Type: string(t.Name), Bytes: hexs(b)}
		}, func(c *Case) error { return replayC09(ctx, c) })
	}
}

func labelOf(how string) string {
	for _, p := range []string{"typed nil", "Type().Zero", "Get(unset", "chain", "nil element", "nil value", "oneof wrapper"} {
		if len(how) >= len(p) && how[:len(p)] == p {
			return p
		}
	}
	return how
}

func replayC09(ctx *Ctx, c *Case) error {
	t, err := mustType(c.Type)
	if err != nil {
		return err
	}
	switch c.Sub {
	case "matrix":
		srcs := emptySources(t)
		i := c.argInt("source")
		if i >= len(srcs) {
			return fmt.Errorf("HARNESS: source index out of range")
		}
		if err := emptyBattery(srcs[i].m, func(string) {}); err != nil {
			return fmt.Errorf("%s of %s: %v", srcs[i].how, t.Name, err)
		}
		return nil
	case "nildecode":
		// decoding data into a nil message is an attempt to store into it: it must
		// panic (or at least fail), never return success with the data dropped
		in := model.AllFieldsStream(t.Desc)
		if len(in) == 0 {
			return nil
		}
		for _, o := range []struct {
			name string
			opts proto.UnmarshalOptions
		}{{"Merge", proto.UnmarshalOptions{Merge: true}}, {"Merge+DiscardUnknown", proto.UnmarshalOptions{Merge: true, DiscardUnknown: true}},
			{"default", proto.UnmarshalOptions{}}, {"AllowPartial", proto.UnmarshalOptions{AllowPartial: true}}} {
			var err error
			panicked := safely(func() error { err = o.opts.Unmarshal(in, t.Nil()); return nil }) != nil
			if !panicked && err == nil {
				return fmt.Errorf("Unmarshal (options: %s) of %d bytes into a nil %s returned nil: the data was silently dropped", o.name, len(in), t.Name)
			}
		}
		return nil
	case "nilwrapper":
		// a oneof wrapper whose message pointer is nil: the member is SET (to an
		// empty message) for every accessor alike, as protoimpl reads the same struct
		fd := t.Desc.Fields().ByNumber(protoreflect.FieldNumber(c.argInt("field")))
		if fd == nil || fd.ContainingOneof() == nil || fd.Message() == nil {
			return fmt.Errorf("HARNESS: no such oneof message member")
		}
		mk := func() proto.Message {
			p := t.New()
			p.ProtoReflect().Mutable(fd)
			for _, s := range model.NilSites(p) {
				s.Apply()
			}
			return p
		}
		p, q := mk(), mk()
		for _, side := range []struct {
			name string
			m    protoreflect.Message
		}{{"generated reflection", p.ProtoReflect()}, {"protoimpl over the same struct", model.ImplOf(p)}} {
			n, seen := 0, false
			side.m.Range(func(rfd protoreflect.FieldDescriptor, v protoreflect.Value) bool {
				n++
				seen = seen || rfd.Number() == fd.Number()
				return true
			})
			w := side.m.WhichOneof(fd.ContainingOneof())
			v := side.m.Get(fd)
			if !side.m.Has(fd) || n != 1 || !seen || w == nil || w.Number() != fd.Number() || !v.IsValid() || v.Message().IsValid() {
				return fmt.Errorf("oneof wrapper of %s holding a nil message, read through %s: Has=%v, Range visits %d fields (the member: %v), WhichOneof=%v, Get valid=%v (want true, 1, true, the member, and an empty read-only message)",
					fd.Name(), side.name, side.m.Has(fd), n, seen, w != nil && w.Number() == fd.Number(), v.IsValid() && v.Message().IsValid())
			}
		}
		set := t.New()
		set.ProtoReflect().Mutable(fd) // the member set to a real empty message: the same value
		for _, pair := range [][2]proto.Message{{p, q}, {q, p}, {p, proto.Clone(p)}, {proto.Clone(p), p}, {p, set}, {set, p}} {
			if !proto.Equal(pair[0], pair[1]) {
				return fmt.Errorf("two messages whose oneof member %s is set to an empty message (held as nil, cloned, or allocated) are not proto.Equal", fd.Name())
			}
		}
		// writing: Mutable hands out a message that can be written to (as protoimpl
		// does over the same struct), and the generic Merge can fill the member
		if err := safely(func() error {
			w := mk()
			mv := w.ProtoReflect().Mutable(fd).Message()
			if !mv.IsValid() {
				return fmt.Errorf("Mutable(%s) on a oneof wrapper holding nil returns a read-only message (protoimpl allocates one)", fd.Name())
			}
			mv.SetUnknown(protoreflect.RawFields{0xf8, 0x7f, 0x2a})
			if got := w.ProtoReflect().Get(fd).Message().GetUnknown(); len(got) != 3 {
				return fmt.Errorf("a write through Mutable(%s) on a oneof wrapper holding nil does not reach the message", fd.Name())
			}
			return nil
		}); err != nil {
			return err
		}
		if err := safely(func() error {
			dst, src := mk(), t.New()
			src.ProtoReflect().Mutable(fd).Message().SetUnknown(protoreflect.RawFields{0xf8, 0x7f, 0x2a})
			proto.Merge(dst, src)
			if !proto.Equal(dst, src) {
				return fmt.Errorf("proto.Merge into a message whose oneof member %s is held as nil does not yield the source", fd.Name())
			}
			return nil
		}); err != nil {
			return fmt.Errorf("proto.Merge into a message whose oneof member %s is held as nil: %v", fd.Name(), err)
		}
		pb, err1 := det.Marshal(p)
		sb, err2 := det.Marshal(set)
		if requiredErr(err1) && requiredErr(err2) && model.HasRequired(t.Desc) {
			return nil // the member's type has required fields: neither form can be marshalled
		}
		if err1 != nil || err2 != nil || !bytes.Equal(pb, sb) {
			return fmt.Errorf("oneof member %s held as nil encodes as %x (%v), set to an allocated empty message as %x (%v)", fd.Name(), pb, err1, sb, err2)
		}
		return nil
	case "nilmapvalue":
		fd := t.Desc.Fields().ByNumber(protoreflect.FieldNumber(c.argInt("field")))
		if fd == nil || !fd.IsMap() {
			return fmt.Errorf("HARNESS: no such map field")
		}
		mk := func() proto.Message {
			p := t.New()
			p.ProtoReflect().Mutable(fd).Map().Mutable(fd.MapKey().Default().MapKey())
			for _, s := range model.NilSites(p) {
				s.Apply()
			}
			return p
		}
		p, q := mk(), mk()
		k := fd.MapKey().Default().MapKey()
		for _, side := range []struct {
			name string
			mp   protoreflect.Map
		}{{"generated reflection", p.ProtoReflect().Get(fd).Map()}, {"protoimpl over the same struct", model.ImplOf(p).Get(fd).Map()}} {
			n := 0
			side.mp.Range(func(protoreflect.MapKey, protoreflect.Value) bool { n++; return true })
			v := side.mp.Get(k)
			if side.mp.Len() != 1 || n != 1 || !side.mp.Has(k) || !v.IsValid() || v.Message().IsValid() {
				return fmt.Errorf("map %s holding a nil message value, read through %s: Len=%d Range=%d Has=%v Get.IsValid=%v (want 1, 1, true, true and an empty read-only message)", fd.Name(), side.name, side.mp.Len(), n, side.mp.Has(k), v.IsValid())
			}
		}
		if !proto.Equal(p, q) {
			return fmt.Errorf("two identical messages whose map %s holds a nil message value are not proto.Equal", fd.Name())
		}
		return nil
	case "parent":
		d, err := decodeD(t, unhex(c.Bytes))
		if err != nil {
			return nil
		}
		p := model.BuildP(t, d.ProtoReflect())
		pm := p.ProtoReflect()
		fds := t.Desc.Fields()
		for i := 0; i < fds.Len(); i++ {
			fd := fds.Get(i)
			if pm.Has(fd) {
				continue
			}
			ctx.Eval(1)
			switch {
			case fd.IsList(), fd.IsMap():
				// covered through the parent-level Get in the battery of the parent? no: check directly
				v := pm.Get(fd)
				if fd.IsList() && (v.List().Len() != 0 || v.List().IsValid()) {
					return fmt.Errorf("Get(unset list %s) on a populated parent is not an empty read-only list", fd.Name())
				}
				if fd.IsMap() && (v.Map().Len() != 0 || v.Map().IsValid()) {
					return fmt.Errorf("Get(unset map %s) on a populated parent is not an empty read-only map", fd.Name())
				}
				ctx.Nontrivial(c.Type, c.Bytes, string(fd.Name()))
			case fd.Message() != nil:
				if err := emptyBattery(pm.Get(fd).Message(), func(string) {}); err != nil {
					return fmt.Errorf("Get(unset %s).Message() on a populated parent: %v", fd.Name(), err)
				}
				ctx.Nontrivial(c.Type, c.Bytes, string(fd.Name()))
			}
		}
		if got, want := canonI(p), canonD(d.ProtoReflect()); got != want {
			return fmt.Errorf("reading empty values changed the parent: %s", diffStr(got, want))
		}
		return nil
	}
	return fmt.Errorf("HARNESS: unknown sub %q", c.Sub)
}
