package engines

import (
	"bytes"
	"fmt"

	"google.golang.org/protobuf/encoding/protowire"
	"google.golang.org/protobuf/proto"
	"google.golang.org/protobuf/runtime/protoiface"
	"pgregory.net/rapid"

	"verif/kit/model"
)

func init() {
	register(&Engine{
		ID:   "C02",
		Desc: "deterministic encoding is byte-identical to the reference encoder",
		Rule: "per generated type: value V from a random well-typed stream decoded by dynamicpb (map-heavy bias in 1/3 of the cases); case = (type, V). Oracle: deterministic bytes of the generated message == dynamicpb's == independent spec encoder's. Non-trivial: encoding has >= 2 top-level records or a map with >= 2 entries; distinct by digest of (type, bytes).",
		Run:  runC02, Replay: func(ctx *Ctx, c *Case) error { return checkC02(ctx, c) },
		Assumptions: []string{"dynamicpb's deterministic marshal (protobuf-go v1.34.0) defines the reference byte order", "float32 NaNs restricted to quiet ones"},
	})
}

func runC02(ctx *Ctx) {
	defer runScale(ctx, "", nil, func(c *Case) error { return checkC02(ctx, c) })
	n := ctx.N(4000, 40000)
	for _, t := range ctx.types() {
		t := t
		ctx.CheckRapid(string(t.Name), n, func(rt *rapid.T) *Case {
			cfg := ctx.streamCfg(rapid.IntRange(0, 3).Draw(rt, "unknown") == 0, rapid.Bool().Draw(rt, "canonical"))
			switch mh := rapid.IntRange(0, 299).Draw(rt, "mapheavy"); {
			case mh < 100:
				cfg.MapBurst = 10
			case mh == 100:
				cfg.MapBurst = 140 // maps around the 127/128 entry mark (rare: large)
				cfg.MaxRecords = 3
			case mh < 130:
				// string keys of one map share a prefix and differ in one rune
				cfg.MapBurst = 10
				cfg.StrCluster = rapid.SampledFrom([]string{"", "k", "denom/", "denom/ibc/", "0123456789abcdef", "é世界😀/é世界😀/"}).Draw(rt, "keyprefix")
				if cfg.StrCluster == "" {
					cfg.StrCluster = "\x00"
				}
			}
			b := cfg.GenStream(rt, t.Desc, 0)
			if _, err := decodeD(t, b); err != nil {
				ctx.Label("discarded: reference decoder rejected generated stream")
				return nil
			}
			ctx.MergeLabels(cfg.Labels)
			ctx.MergeExcluded(cfg.Excluded)
			c := &Case{Type: string(t.Name), Bytes: hexs(b)}
			if rapid.IntRange(0, 3).Draw(rt, "reuse") == 0 {
				// the same Go object is marshalled, changed to a second value, marshalled again
				cfg2 := ctx.streamCfg(rapid.Bool().Draw(rt, "unknown2"), true)
				b2 := cfg2.GenStream(rt, t.Desc, 0)
				if _, err := decodeD(t, b2); err == nil {
					c.Sub = "reuse"
					if b2 == nil {
						b2 = []byte{}
					}
					c.Bytes2 = hexs(b2)
				}
			}
			return c
		}, func(c *Case) error { return checkC02(ctx, c) })
	}
}

// implDet marshals a generated struct with protobuf-go's table-driven codec
// (top level; nested generated messages go back through their own methods).
func implDet(p proto.Message) (out []byte, err error) {
	defer func() {
		if r := recover(); r != nil {
			err = fmt.Errorf("impl codec panicked: %v", r)
		}
	}()
	o, err := proto.MarshalOptions{Deterministic: true}.MarshalState(protoiface.MarshalInput{Message: model.ImplOf(p)})
	return o.Buf, err
}

func checkC02(ctx *Ctx, c *Case) error {
	scaleBytes(c)
	t, err := mustType(c.Type)
	if err != nil {
		return err
	}
	d, err := decodeD(t, unhex(c.Bytes))
	if err != nil {
		return nil
	}
	p := model.BuildP(t, d.ProtoReflect())
	pb, err := det.Marshal(p)
	if err != nil {
		return fmt.Errorf("deterministic Marshal failed: %v", err)
	}
	db, err := det.Marshal(d)
	if err != nil {
		return fmt.Errorf("HARNESS: reference marshal failed: %v", err)
	}
	sb := model.SpecEncode(d.ProtoReflect())
	if !bytes.Equal(db, sb) {
		ctx.Label("references disagree: dynamicpb vs spec encoder (not asserted)")
		ctx.Note("dynamicpb vs spec encoder differ for %s: %s / %s", c.Type, trunc(hexs(db), 200), trunc(hexs(sb), 200))
		return nil
	}
	if !bytes.Equal(pb, db) {
		return fmt.Errorf("deterministic bytes differ from reference and spec encoder:\n generated: %s\n reference: %s\n %s", trunc(hexs(pb), 600), trunc(hexs(db), 600), diffStr(hexs(pb), hexs(db)))
	}
	if ib, err := implDet(p); err == nil && !bytes.Equal(ib, db) {
		ctx.Label("references disagree: protoimpl codec vs dynamicpb (not asserted)")
	}
	if c.Sub == "reuse" {
		// object reuse: sizes, marshals, then the same struct is given another
		// value through protobuf-go's own reflection and marshalled again;
		// nothing remembered from the first value may leak into the second
		d2, err := decodeD(t, unhex(c.Bytes2))
		if err != nil {
			return nil
		}
		_ = proto.Size(p)
		if _, err := proto.Marshal(p); err != nil {
			return fmt.Errorf("Marshal failed: %v", err)
		}
		wipe(p.ProtoReflect(), 0)
		model.CopyInto(p.ProtoReflect(), d2.ProtoReflect(), model.Impl)
		want2, _ := det.Marshal(d2)
		got2, err := det.Marshal(p)
		if err != nil {
			return fmt.Errorf("second Marshal of a reused object failed: %v", err)
		}
		if !bytes.Equal(got2, want2) {
			return fmt.Errorf("a message object marshalled, changed and marshalled again does not encode its new value: %s", diffStr(hexs(got2), hexs(want2)))
		}
		if sz := proto.Size(p); sz != len(want2) {
			return fmt.Errorf("Size of a reused object = %d, its encoding has %d bytes", sz, len(want2))
		}
		nd, err := proto.Marshal(p)
		if err != nil || len(nd) != len(want2) {
			return fmt.Errorf("non-deterministic Marshal of a reused object: %d bytes, want %d (err=%v)", len(nd), len(want2), err)
		}
		ctx.Label("sub=reuse")
	}
	recs, _ := model.SplitRecords(pb)
	if len(recs) >= 2 {
		ctx.Nontrivial(c.Type, string(pb))
		for _, r := range recs {
			ctx.Label(fmt.Sprintf("tagbytes=%d", protowire.SizeTag(r.Num)))
		}
	} else {
		ctx.Label("trivial: fewer than 2 records")
	}
	return nil
}

