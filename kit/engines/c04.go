package engines

import (
	"bytes"
	"fmt"
	"strconv"
	"strings"

	"google.golang.org/protobuf/proto"
	"google.golang.org/protobuf/runtime/protoiface"
	"pgregory.net/rapid"

	"verif/kit/model"
)

func init() {
	register(&Engine{
		ID:   "C04",
		Desc: "Size equals encoded length; append-marshal leaves the prefix intact",
		Rule: "per generated type: value V (random well-typed stream decoded by dynamicpb), optionally with nil list elements / nil map values / oneof wrappers holding nil injected into the Go struct by reflection, or with empty-non-nil containers; marshal mode; prefix bytes 0..64; spare capacity 0..size+16. Oracle: proto.Size == len(Marshal) == dynamicpb size == spec-encoder length (reference comparisons only without nil injection; with nils: protoimpl codec over the same struct); MarshalAppend keeps the prefix (compared with a pristine copy) and appends exactly Marshal's bytes; direct ProtoMethods Size/Marshal with flag combinations agree; no panic. Non-trivial: encoded size >= 2; distinct by digest of (type, bytes, prefix length, nil sites).",
		Run:  runC04, Replay: func(ctx *Ctx, c *Case) error { return checkC04(ctx, c) },
		Assumptions: []string{"dynamicpb size is the reference size", "a nil list element / map value / wrapped message is compared with protoimpl's treatment of the same struct"},
	})
}

func runC04(ctx *Ctx) {
	defer runScale(ctx, "", map[string]string{"mode": "deterministic", "prefix": "aabbcc", "cap": "3"}, func(c *Case) error { return checkC04(ctx, c) })
	n := ctx.N(4000, 40000)
	for _, t := range ctx.types() {
		t := t
		ctx.CheckRapid(string(t.Name), n, func(rt *rapid.T) *Case {
			b, d := ctx.genTypeStream(rt, t, rapid.IntRange(0, 2).Draw(rt, "unknown") == 0, rapid.Bool().Draw(rt, "canonical"))
			if d == nil {
				return nil
			}
			c := &Case{Type: string(t.Name), Bytes: hexs(b), Args: map[string]string{}}
			c.Args["mode"] = rapid.SampledFrom([]string{"default", "deterministic"}).Draw(rt, "mode")
			plen := rapid.SampledFrom([]int{0, 0, 1, 7, 64}).Draw(rt, "plen")
			c.Args["prefix"] = hexs(rapid.SliceOfN(rapid.Byte(), plen, plen).Draw(rt, "prefix"))
			c.Args["cap"] = strconv.Itoa(rapid.IntRange(0, 4).Draw(rt, "capclass"))
			switch rapid.IntRange(0, 5).Draw(rt, "inject") {
			case 0:
				p := model.BuildP(t, d.ProtoReflect())
				sites := model.NilSites(p)
				if len(sites) > 0 {
					k := rapid.IntRange(1, 3).Draw(rt, "nnil")
					var idx []string
					for i := 0; i < k; i++ {
						idx = append(idx, strconv.Itoa(rapid.IntRange(0, len(sites)-1).Draw(rt, "site")))
					}
					c.Args["nil"] = strings.Join(idx, ",")
				}
			case 1:
				c.Args["empty"] = "1"
			}
			return c
		}, func(c *Case) error { return checkC04(ctx, c) })
	}
}

func checkC04(ctx *Ctx, c *Case) error {
	scaleBytes(c)
	t, err := mustType(c.Type)
	if err != nil {
		return err
	}
	d, err := decodeD(t, unhex(c.Bytes))
	if err != nil {
		return nil
	}
	p := model.BuildP(t, d.ProtoReflect())
	injected := false
	if s := c.arg("nil"); s != "" {
		sites := model.NilSites(p)
		// apply from the back so that earlier descriptions stay valid
		seen := map[int]bool{}
		for _, f := range strings.Split(s, ",") {
			i, _ := strconv.Atoi(f)
			if i < len(sites) && !seen[i] {
				seen[i] = true
				sites[i].Apply()
				injected = true
				ctx.Label("nil-injected")
			}
		}
	}
	if c.arg("empty") == "1" {
		if model.SetEmptyContainers(p) > 0 {
			ctx.Label("empty-non-nil containers")
		}
	}
	if injected {
		// generic algorithms must cope with nil elements as well (no panic)
		cl := proto.Clone(p)
		_ = proto.Equal(p, cl)
		_ = proto.Equal(p, p)
	}
	detMode := c.arg("mode") == "deterministic"
	opts := proto.MarshalOptions{Deterministic: detMode}
	size := opts.Size(p)
	out, err := opts.Marshal(p)
	if err != nil {
		if requiredErr(err) && model.HasRequired(t.Desc) {
			ctx.Label("partial value after nil injection (required field unset): not marshalable, skipped")
			return nil
		}
		return fmt.Errorf("Marshal failed: %v", err)
	}
	if size != len(out) {
		return fmt.Errorf("proto.Size=%d but Marshal produced %d bytes", size, len(out))
	}
	if !injected {
		if ds := proto.Size(d); ds != size {
			return fmt.Errorf("proto.Size=%d but reference size=%d", size, ds)
		}
		if sl := len(model.SpecEncode(d.ProtoReflect())); sl != size {
			return fmt.Errorf("proto.Size=%d but spec encoding has %d bytes", size, sl)
		}
	} else {
		if ib, err := implDet(p); err == nil {
			pb, _ := det.Marshal(p)
			if !bytes.Equal(ib, pb) {
				return fmt.Errorf("with nil elements: generated deterministic bytes differ from protoimpl over the same struct: %s vs %s", trunc(hexs(pb), 300), trunc(hexs(ib), 300))
			}
		} else {
			ctx.Label("reference codec unavailable for nil-injected struct")
		}
	}
	// MarshalAppend
	prefix := unhex(c.arg("prefix"))
	pristine := append([]byte{}, prefix...)
	capExtra := []int{0, 1, size / 2, size + 16, size}[c.argInt("cap")%5]
	buf := make([]byte, len(prefix)+capExtra)
	for i := range buf {
		buf[i] = 0xAA // whatever was in the buffer before: spare capacity is not zeroed memory
	}
	buf = buf[:len(prefix)]
	copy(buf, prefix)
	if len(prefix) == 0 && capExtra == 0 && digest(c.Bytes, "nilbuf")%2 == 0 {
		buf = nil // a nil buffer is a legal destination too
	}
	res, err := opts.MarshalAppend(buf, p)
	if err != nil {
		return fmt.Errorf("MarshalAppend failed: %v", err)
	}
	if len(res) < len(pristine) || !bytes.Equal(res[:len(pristine)], pristine) {
		return fmt.Errorf("MarshalAppend changed the existing bytes: had %s, now %s", hexs(pristine), trunc(hexs(res), 300))
	}
	if !bytes.Equal(buf[:len(prefix)], pristine) {
		return fmt.Errorf("MarshalAppend wrote into the caller's prefix")
	}
	tail := res[len(pristine):]
	if detMode {
		if !bytes.Equal(tail, out) {
			return fmt.Errorf("MarshalAppend appended %s, Marshal gives %s", trunc(hexs(tail), 300), trunc(hexs(out), 300))
		}
	} else {
		if len(tail) != size {
			return fmt.Errorf("MarshalAppend appended %d bytes, Size is %d", len(tail), size)
		}
		if !injected {
			d2, err := decodeD(t, tail)
			if err != nil || canonD(d2.ProtoReflect()) != canonD(d.ProtoReflect()) {
				return fmt.Errorf("MarshalAppend appended bytes that do not decode to the value (err=%v)", err)
			}
		}
	}
	// every combination of the three marshal options on one call (UseCachedSize
	// after a Size call with the same options, as its contract requires)
	for mask := 0; mask < 8 && !injected; mask++ {
		mo := proto.MarshalOptions{Deterministic: mask&1 != 0, AllowPartial: mask&2 != 0, UseCachedSize: mask&4 != 0}
		if mo.UseCachedSize {
			_ = proto.MarshalOptions{Deterministic: mo.Deterministic, AllowPartial: mo.AllowPartial}.Size(p)
		}
		ob, err := mo.Marshal(p)
		if err != nil {
			return fmt.Errorf("Marshal with options %+v failed: %v", mo, err)
		}
		if len(ob) != size {
			return fmt.Errorf("Marshal with options %+v produced %d bytes, Size is %d", mo, len(ob), size)
		}
		if mo.Deterministic {
			if db, _ := det.Marshal(p); !bytes.Equal(ob, db) {
				return fmt.Errorf("Marshal with options %+v differs from plain deterministic Marshal", mo)
			}
		}
	}
	// direct ProtoMethods calls with flag combinations
	m := p.ProtoReflect()
	meth := m.ProtoMethods()
	if meth == nil || meth.Size == nil || meth.Marshal == nil {
		return fmt.Errorf("ProtoMethods missing Size/Marshal")
	}
	for _, fl := range []protoiface.MarshalInputFlags{0, protoiface.MarshalDeterministic, protoiface.MarshalDeterministic | protoiface.MarshalUseCachedSize, protoiface.MarshalUseCachedSize} {
		so := meth.Size(protoiface.SizeInput{Message: m, Flags: fl &^ protoiface.MarshalUseCachedSize})
		if so.Size != size {
			return fmt.Errorf("ProtoMethods.Size(flags=%d)=%d, proto.Size=%d", fl, so.Size, size)
		}
		mb := append(make([]byte, 0, len(prefix)+size+8), prefix...)
		for i := len(mb); i < cap(mb); i++ {
			mb[:cap(mb)][i] = 0x55
		}
		mo, err := meth.Marshal(protoiface.MarshalInput{Message: m, Buf: mb, Flags: fl})
		if err != nil {
			return fmt.Errorf("ProtoMethods.Marshal(flags=%d) failed: %v", fl, err)
		}
		if len(mo.Buf) != len(prefix)+size || !bytes.Equal(mo.Buf[:len(prefix)], pristine) {
			return fmt.Errorf("ProtoMethods.Marshal(flags=%d): %d bytes after a %d-byte prefix, size %d (prefix intact=%v)", fl, len(mo.Buf)-len(prefix), len(prefix), size, bytes.Equal(mo.Buf[:min(len(prefix), len(mo.Buf))], pristine))
		}
		if fl&protoiface.MarshalDeterministic != 0 {
			pb, _ := det.Marshal(p)
			if !bytes.Equal(mo.Buf[len(prefix):], pb) {
				return fmt.Errorf("ProtoMethods.Marshal(deterministic) differs from proto.Marshal")
			}
		}
	}
	if size >= 2 {
		ctx.Nontrivial(c.Type, string(out), c.arg("prefix"), c.arg("nil"), c.arg("empty"))
		if len(prefix) > 0 {
			ctx.Label("prefix non-empty")
		}
	} else {
		ctx.Label("trivial: size < 2")
	}
	return nil
}
