package engines

import (
	"fmt"
	"math"
	"math/big"
	"strconv"
	"time"

	"github.com/cosmos/cosmos-proto/support/timepb"
	"google.golang.org/protobuf/types/known/durationpb"
	"google.golang.org/protobuf/types/known/timestamppb"
	"pgregory.net/rapid"
)

func init() {
	register(&Engine{
		ID:   "C17",
		Desc: "timepb arithmetic is exact and normalised; Compare is chronological",
		Rule: "sub add: valid Timestamp t (whole range, both ends) and valid Duration d of either sign, nanos biased to every carry/borrow edge (0, 1, 999999999, values summing to 1e9 +-1, -1e9 +-1, 0 +-1); oracle = exact math/big nanosecond arithmetic, result normalised, fresh, inputs unchanged. sub addstd: t valid, any time.Duration; equals exact sum and Add(t, durationpb.New(s)). sub overflow: normalised nanos, seconds near +-2^63, valid d: panic iff exact seconds do not fit int64, else exact. sub compare: normalised timestamp triples; sign == exact comparison, reflexive, antisymmetric, transitive. Non-trivial: d != 0 (add/addstd/overflow) or distinct operands (compare); distinct by digest of the operands.",
		Run:  runC17, Replay: func(ctx *Ctx, c *Case) error { return checkC17(ctx, c) },
		Assumptions: []string{"math/big is exact"},
	})
}

const (
	minTS  = -62135596800
	maxTS  = 253402300799
	maxDur = 315576000000
	e9     = 1000000000
)

func genTSSeconds() *rapid.Generator[int64] {
	return rapid.OneOf(
		rapid.Int64Range(minTS, maxTS),
		rapid.SampledFrom([]int64{minTS, minTS + 1, maxTS, maxTS - 1, 0, -1, 1, 10}),
		rapid.Int64Range(-100, 100),
	)
}

func genNanos() *rapid.Generator[int32] {
	return rapid.OneOf(
		rapid.Int32Range(0, e9-1),
		rapid.SampledFrom([]int32{0, 1, 2, 100, 499999999, 500000000, e9 - 2, e9 - 1}),
	)
}

func runC17(ctx *Ctx) {
	per := func(q, th int) int { return ctx.N(q, th)/ctx.NShards + 1 }
	ctx.CheckRapid("add", per(1000000, 16000000), func(rt *rapid.T) *Case {
		ts := genTSSeconds().Draw(rt, "ts")
		tn := genNanos().Draw(rt, "tn")
		var ds int64
		var dn int32
		switch rapid.IntRange(0, 5).Draw(rt, "dclass") {
		case 0: // pure nanos around the carry/borrow edges of tn
			ds = 0
			dn = rapid.SampledFrom([]int32{-tn, -tn - 1, -tn + 1, e9 - tn, e9 - tn - 1, e9 - tn + 1, -1, 1, -(e9 - 1), e9 - 1, -200, 0}).Draw(rt, "dnedge")
		case 1:
			ds = rapid.Int64Range(-maxDur, maxDur).Draw(rt, "ds")
			dn = rapid.Int32Range(0, e9-1).Draw(rt, "dn")
		default:
			ds = rapid.OneOf(rapid.Int64Range(-1000, 1000), rapid.Int64Range(-maxDur, maxDur), rapid.SampledFrom([]int64{maxDur, -maxDur, 0,
				9223372035, 9223372036, 9223372037, -9223372035, -9223372036, -9223372037, 1 << 24, 1<<24 + 1, 1 << 31, 1 << 32})).Draw(rt, "ds")
			dn = rapid.OneOf(rapid.Int32Range(0, e9-1), rapid.SampledFrom([]int32{0, 1, e9 - 1, e9 - tn, e9 - tn - 1, tn, tn + 1, 854775807, 854775808, 854775806})).Draw(rt, "dn")
		}
		// make d valid: |nanos| < 1e9, sign agrees with seconds
		if dn <= -e9 || dn >= e9 {
			dn = dn % e9
		}
		if ds > 0 && dn < 0 || ds < 0 && dn > 0 {
			dn = -dn
		}
		if ds == maxDur || ds == -maxDur {
			dn = 0
		}
		return &Case{Sub: "add", Args: map[string]string{"ts": i64(ts), "tn": i64(int64(tn)), "ds": i64(ds), "dn": i64(int64(dn))}}
	}, func(c *Case) error { return checkC17(ctx, c) })

	ctx.CheckRapid("addstd", per(500000, 8000000), func(rt *rapid.T) *Case {
		ts := genTSSeconds().Draw(rt, "ts")
		tn := genNanos().Draw(rt, "tn")
		s := rapid.OneOf(rapid.Int64(), rapid.Int64Range(-3*e9, 3*e9), rapid.Custom(func(t *rapid.T) int64 {
			// a whole number of seconds plus/minus a few nanoseconds, over the whole time.Duration range
			secs := rapid.OneOf(rapid.Int64Range(-9223372035, 9223372035), rapid.Int64Range(-40000000, 40000000), rapid.SampledFrom([]int64{1 << 24, 1<<24 + 1, 31536000, 3153600000, 9223372035, -31536000})).Draw(t, "secs")
			off := rapid.OneOf(rapid.Int64Range(-1200, 1200), rapid.SampledFrom([]int64{-1, 1, 0, -2, 999999999, -999999999})).Draw(t, "off")
			return secs*e9 + off
		}), rapid.SampledFrom([]int64{0, 1, -1, math.MaxInt64, math.MinInt64, math.MinInt64 + 1, e9, -e9, int64(-tn), int64(e9 - tn), int64(-tn) - 1})).Draw(rt, "std")
		return &Case{Sub: "addstd", Args: map[string]string{"ts": i64(ts), "tn": i64(int64(tn)), "std": i64(s)}}
	}, func(c *Case) error { return checkC17(ctx, c) })

	ctx.CheckRapid("overflow", per(300000, 4000000), func(rt *rapid.T) *Case {
		edge := rapid.SampledFrom([]int64{math.MaxInt64, math.MinInt64}).Draw(rt, "edge")
		off := rapid.OneOf(rapid.Int64Range(0, 2*maxDur), rapid.Int64Range(0, 3)).Draw(rt, "off")
		ts := edge
		if edge > 0 {
			ts -= off
		} else {
			ts += off
		}
		tn := genNanos().Draw(rt, "tn")
		ds := rapid.OneOf(rapid.Int64Range(-maxDur, maxDur), rapid.Int64Range(-3, 3)).Draw(rt, "ds")
		dn := rapid.OneOf(rapid.Int32Range(0, e9-1), rapid.SampledFrom([]int32{0, 1, e9 - 1, e9 - tn, e9 - tn - 1})).Draw(rt, "dn")
		if ds < 0 {
			dn = -dn
		} else if ds == 0 && rapid.Bool().Draw(rt, "negn") {
			dn = -dn
		}
		if ds == maxDur || ds == -maxDur {
			dn = 0
		}
		return &Case{Sub: "overflow", Args: map[string]string{"ts": i64(ts), "tn": i64(int64(tn)), "ds": i64(ds), "dn": i64(int64(dn))}}
	}, func(c *Case) error { return checkC17(ctx, c) })

	ctx.CheckRapid("compare", per(500000, 6000000), func(rt *rapid.T) *Case {
		a := map[string]string{}
		base := rapid.OneOf(genTSSeconds(), rapid.Int64(), rapid.SampledFrom([]int64{math.MaxInt64, math.MinInt64})).Draw(rt, "base")
		for _, k := range []string{"a", "b", "c"} {
			s := base
			if rapid.IntRange(0, 2).Draw(rt, "same") != 0 {
				s = rapid.OneOf(genTSSeconds(), rapid.Int64(), rapid.Custom(func(t *rapid.T) int64 {
					d := rapid.Int64Range(-2, 2).Draw(t, "delta")
					if (d > 0 && base > math.MaxInt64-d) || (d < 0 && base < math.MinInt64-d) {
						return base
					}
					return base + d
				})).Draw(rt, "s")
			}
			a[k+"s"] = i64(s)
			a[k+"n"] = i64(int64(genNanos().Draw(rt, "n")))
		}
		return &Case{Sub: "compare", Args: a}
	}, func(c *Case) error { return checkC17(ctx, c) })
}

func i64(v int64) string { return strconv.FormatInt(v, 10) }
func (c *Case) argI64(k string) int64 {
	v, _ := strconv.ParseInt(c.Args[k], 10, 64)
	return v
}

var bigE9 = big.NewInt(e9)

func exactNS(s int64, n int64) *big.Int {
	x := new(big.Int).Mul(big.NewInt(s), bigE9)
	return x.Add(x, big.NewInt(n))
}

// splitNS returns floor(x/1e9), x mod 1e9 (non-negative).
func splitNS(x *big.Int) (sec *big.Int, nanos int64) {
	sec, m := new(big.Int).DivMod(x, bigE9, new(big.Int)) // Euclidean: 0 <= m < 1e9
	return sec, m.Int64()
}

func callAdd(f func() *timestamppb.Timestamp) (res *timestamppb.Timestamp, panicked interface{}) {
	defer func() { panicked = recover() }()
	return f(), nil
}

func checkC17(ctx *Ctx, c *Case) error {
	switch c.Sub {
	case "add", "overflow":
		t := &timestamppb.Timestamp{Seconds: c.argI64("ts"), Nanos: int32(c.argI64("tn"))}
		d := &durationpb.Duration{Seconds: c.argI64("ds"), Nanos: int32(c.argI64("dn"))}
		if d.CheckValid() != nil {
			return nil
		}
		if c.Sub == "add" && t.CheckValid() != nil {
			return nil
		}
		type sn struct {
			Seconds int64
			Nanos   int32
		}
		t0, d0 := sn{t.Seconds, t.Nanos}, sn{d.Seconds, d.Nanos}
		withUnknown(t)
		sum := new(big.Int).Add(exactNS(t.Seconds, int64(t.Nanos)), exactNS(d.Seconds, int64(d.Nanos)))
		wantS, wantN := splitNS(sum)
		res, pan := callAdd(func() *timestamppb.Timestamp { return timepb.Add(t, d) })
		if t.Seconds != t0.Seconds || t.Nanos != t0.Nanos || d.Seconds != d0.Seconds || d.Nanos != d0.Nanos {
			return fmt.Errorf("Add modified its inputs")
		}
		if !wantS.IsInt64() {
			if pan == nil {
				return fmt.Errorf("Add(%v,%v): exact seconds %s do not fit in int64 but Add returned {%d,%d} instead of panicking", t0, d0, wantS, res.Seconds, res.Nanos)
			}
			ctx.Label("overflow: panicked as required")
			ctx.Nontrivial(c.Sub, c.Args["ts"], c.Args["tn"], c.Args["ds"], c.Args["dn"])
			return nil
		}
		if pan != nil {
			return fmt.Errorf("Add({%d,%d},{%d,%d}) panicked (%v) although the exact result {%s,%d} is representable", t0.Seconds, t0.Nanos, d0.Seconds, d0.Nanos, pan, wantS, wantN)
		}
		if res == nil {
			return fmt.Errorf("Add returned nil for non-nil t")
		}
		if res.Seconds != wantS.Int64() || int64(res.Nanos) != wantN {
			return fmt.Errorf("Add({%d,%d},{%d,%d}) = {%d,%d}, exact instant normalised is {%s,%d}", t0.Seconds, t0.Nanos, d0.Seconds, d0.Nanos, res.Seconds, res.Nanos, wantS, wantN)
		}
		if res == t {
			return fmt.Errorf("Add returned its argument, not a fresh value")
		}
		if sharesUnknown(t, res) {
			return fmt.Errorf("Add({%d,%d},{%d,%d}) returned a value that shares the unknown-field storage of its argument (a struct copy, not a fresh value)", t0.Seconds, t0.Nanos, d0.Seconds, d0.Nanos)
		}
		res.Seconds++
		if t.Seconds != t0.Seconds {
			return fmt.Errorf("result aliases the input")
		}
		res.Seconds--
		if wantS.Int64() >= minTS && wantS.Int64() <= maxTS {
			if err := res.CheckValid(); err != nil {
				return fmt.Errorf("result of a representable instant is not a valid Timestamp: %v", err)
			}
		}
		if d0.Seconds != 0 || d0.Nanos != 0 {
			ctx.Nontrivial(c.Sub, c.Args["ts"], c.Args["tn"], c.Args["ds"], c.Args["dn"])
			if int64(t0.Nanos)+int64(d0.Nanos) >= e9 {
				ctx.Label("nanos carry")
			} else if int64(t0.Nanos)+int64(d0.Nanos) < 0 {
				ctx.Label("nanos borrow")
			}
			if d0.Seconds < 0 || d0.Nanos < 0 {
				ctx.Label("negative duration")
			}
		}
	case "addstd":
		t := &timestamppb.Timestamp{Seconds: c.argI64("ts"), Nanos: int32(c.argI64("tn"))}
		if t.CheckValid() != nil {
			return nil
		}
		s := time.Duration(c.argI64("std"))
		withUnknown(t)
		t0 := struct {
			Seconds int64
			Nanos   int32
		}{t.Seconds, t.Nanos}
		sum := new(big.Int).Add(exactNS(t.Seconds, int64(t.Nanos)), big.NewInt(int64(s)))
		wantS, wantN := splitNS(sum)
		res, pan := callAdd(func() *timestamppb.Timestamp { return timepb.AddStd(t, s) })
		if pan != nil {
			return fmt.Errorf("AddStd({%d,%d}, %d) panicked: %v", t0.Seconds, t0.Nanos, int64(s), pan)
		}
		if res == nil || res == t {
			return fmt.Errorf("AddStd must return a fresh non-nil value")
		}
		if sharesUnknown(t, res) {
			return fmt.Errorf("AddStd({%d,%d}, %d) returned a value that shares the unknown-field storage of its argument (a struct copy, not a fresh value)", t0.Seconds, t0.Nanos, int64(s))
		}
		if t.Seconds != t0.Seconds || t.Nanos != t0.Nanos {
			return fmt.Errorf("AddStd modified its input")
		}
		if res.Seconds != wantS.Int64() || int64(res.Nanos) != wantN {
			return fmt.Errorf("AddStd({%d,%d}, %dns) = {%d,%d}, exact is {%s,%d}", t0.Seconds, t0.Nanos, int64(s), res.Seconds, res.Nanos, wantS, wantN)
		}
		res2, pan2 := callAdd(func() *timestamppb.Timestamp { return timepb.Add(t, durationpb.New(s)) })
		if pan2 != nil {
			return fmt.Errorf("Add(t, durationpb.New(%d)) panicked: %v", int64(s), pan2)
		}
		if res2.Seconds != res.Seconds || res2.Nanos != res.Nanos {
			return fmt.Errorf("Add({%d,%d}, durationpb.New(%dns)) = {%d,%d} but AddStd = {%d,%d}", t0.Seconds, t0.Nanos, int64(s), res2.Seconds, res2.Nanos, res.Seconds, res.Nanos)
		}
		if s != 0 {
			ctx.Nontrivial("addstd", c.Args["ts"], c.Args["tn"], c.Args["std"])
		}
	case "compare":
		mk := func(k string) *timestamppb.Timestamp {
			return &timestamppb.Timestamp{Seconds: c.argI64(k + "s"), Nanos: int32(c.argI64(k + "n"))}
		}
		a, b, cc := mk("a"), mk("b"), mk("c")
		ex := func(x *timestamppb.Timestamp) *big.Int { return exactNS(x.Seconds, int64(x.Nanos)) }
		sign := func(v int) int {
			switch {
			case v < 0:
				return -1
			case v > 0:
				return 1
			}
			return 0
		}
		pairs := [][2]*timestamppb.Timestamp{{a, b}, {b, a}, {b, cc}, {a, cc}, {a, a}}
		res := make([]int, len(pairs))
		for i, p := range pairs {
			got := timepb.Compare(p[0], p[1])
			res[i] = got
			if want := ex(p[0]).Cmp(ex(p[1])); sign(got) != want {
				return fmt.Errorf("Compare({%d,%d},{%d,%d})=%d, instants compare %d", p[0].Seconds, p[0].Nanos, p[1].Seconds, p[1].Nanos, got, want)
			}
			if got < -1 || got > 1 {
				return fmt.Errorf("Compare returned %d (documented: -1, 0, 1)", got)
			}
		}
		if sign(res[0]) != -sign(res[1]) {
			return fmt.Errorf("Compare is not antisymmetric")
		}
		if res[4] != 0 {
			return fmt.Errorf("Compare(a,a) != 0")
		}
		if res[0] <= 0 && res[2] <= 0 && res[3] > 0 {
			return fmt.Errorf("Compare is not transitive")
		}
		if a.Seconds != b.Seconds || a.Nanos != b.Nanos {
			ctx.Nontrivial("compare", fmt.Sprint(c.Args))
		}
	default:
		return fmt.Errorf("HARNESS: unknown sub %q", c.Sub)
	}
	return nil
}

// withUnknown gives t a few unknown bytes in a buffer with spare capacity, so
// that a result which is a struct copy of t can be recognised by its storage.
func withUnknown(t *timestamppb.Timestamp) {
	u := make([]byte, 3, 64)
	copy(u, []byte{0xf8, 0x7f, 0x01})
	t.ProtoReflect().SetUnknown(u)
}

func sharesUnknown(t, res *timestamppb.Timestamp) bool {
	if t == nil || res == nil {
		return false
	}
	a, b := t.ProtoReflect().GetUnknown(), res.ProtoReflect().GetUnknown()
	return len(a) > 0 && len(b) > 0 && &a[0] == &b[0]
}
