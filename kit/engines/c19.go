package engines

import (
	"bytes"
	"compress/gzip"
	"encoding/hex"
	"encoding/json"
	"fmt"
	"io"
	"os"
	"reflect"
	"strconv"
	"strings"

	cosmos_proto "github.com/cosmos/cosmos-proto"
	"google.golang.org/protobuf/encoding/prototext"
	"google.golang.org/protobuf/proto"
	"google.golang.org/protobuf/reflect/protodesc"
	"google.golang.org/protobuf/reflect/protoreflect"
	"google.golang.org/protobuf/reflect/protoregistry"
	"google.golang.org/protobuf/types/descriptorpb"
	"pgregory.net/rapid"

	"verif/kit/model"
)

func init() {
	register(&Engine{
		ID:   "C19",
		Desc: "generated Go API and descriptors are coherent with the schema",
		Rule: "per generated package (finite, enumerated completely): registered file descriptor == the FileDescriptorProto handed to the generator (options compared after a deterministic re-encoding with the same resolver; for the checked-in packages the schema is parsed from the .proto sources by a small parser for the grammar subset they use); every message and enum reachable in GlobalTypes/GlobalFiles under its full name and mapping back to its Go type; ProtoReflect().Descriptor() is the registry's descriptor object; Type().New()/Zero() and MessageType.New() yield the same Go type; extension types of cosmos.pb.go resolve by name and number. Per value V (rapid): every getter found by Go reflection (also on a nil receiver) equals ProtoReflect().Get; Reset empties; String() parses back with prototext to an equal message; enum String/Number/Descriptor/Type match the schema for declared and undeclared numbers. Non-trivial: every (package, entity, check) triple and every non-empty V; distinct by digest.",
		Run:  runC19, Replay: func(ctx *Ctx, c *Case) error { return checkC19Value(ctx, c) },
		Assumptions: []string{"go_package of the checked-in files is not compared (buf managed mode rewrites it)"},
	})
}

type unitReport struct {
	Name       string   `json:"name"`
	Proto      string   `json:"proto"`
	GoPkg      string   `json:"go_pkg"`
	CompileOK  bool     `json:"compile_ok"`
	Messages   []string `json:"messages"`
	Descriptor string   `json:"descriptor_hex"`
}

func loadUnits() ([]unitReport, error) {
	p := os.Getenv("VERIF_UNITS")
	if p == "" {
		return nil, fmt.Errorf("HARNESS: VERIF_UNITS not set")
	}
	js, err := os.ReadFile(p)
	if err != nil {
		return nil, fmt.Errorf("HARNESS: %v", err)
	}
	var us []unitReport
	if err := json.Unmarshal(js, &us); err != nil {
		return nil, fmt.Errorf("HARNESS: %v", err)
	}
	return us, nil
}

// normFile re-encodes a FileDescriptorProto deterministically and parses it
// back with the global resolver, so that custom options compare as typed
// extensions on both sides.
func normFile(f *descriptorpb.FileDescriptorProto) (*descriptorpb.FileDescriptorProto, error) {
	f = proto.Clone(f).(*descriptorpb.FileDescriptorProto)
	f.SourceCodeInfo = nil
	b, err := proto.MarshalOptions{Deterministic: true}.Marshal(f)
	if err != nil {
		return nil, err
	}
	out := &descriptorpb.FileDescriptorProto{}
	if err := (proto.UnmarshalOptions{Resolver: protoregistry.GlobalTypes}).Unmarshal(b, out); err != nil {
		return nil, err
	}
	return out, nil
}

func compareFile(ctx *Ctx, reg protoreflect.FileDescriptor, want *descriptorpb.FileDescriptorProto, ignoreGoPkg bool) error {
	got, err := normFile(protodesc.ToFileDescriptorProto(reg))
	if err != nil {
		return fmt.Errorf("HARNESS: %v", err)
	}
	w, err := normFile(want)
	if err != nil {
		return fmt.Errorf("HARNESS: %v", err)
	}
	if ignoreGoPkg {
		if got.Options != nil {
			got.Options.GoPackage = nil
		}
		if w.Options != nil {
			w.Options.GoPackage = nil
		}
		if got.Options != nil && proto.Size(got.Options) == 0 {
			got.Options = nil
		}
		if w.Options != nil && proto.Size(w.Options) == 0 {
			w.Options = nil
		}
	}
	if !proto.Equal(got, w) {
		gt, wt := prototext.Format(got), prototext.Format(w)
		return fmt.Errorf("registered descriptor of %s differs from the schema given to the generator: %s", reg.Path(), diffStr(gt, wt))
	}
	return nil
}

func allEnums(fd protoreflect.FileDescriptor) []protoreflect.EnumDescriptor {
	var out []protoreflect.EnumDescriptor
	var walkM func(ms protoreflect.MessageDescriptors)
	add := func(es protoreflect.EnumDescriptors) {
		for i := 0; i < es.Len(); i++ {
			out = append(out, es.Get(i))
		}
	}
	walkM = func(ms protoreflect.MessageDescriptors) {
		for i := 0; i < ms.Len(); i++ {
			add(ms.Get(i).Enums())
			walkM(ms.Get(i).Messages())
		}
	}
	add(fd.Enums())
	walkM(fd.Messages())
	return out
}

func allMsgs(fd protoreflect.FileDescriptor) []protoreflect.MessageDescriptor {
	var out []protoreflect.MessageDescriptor
	var walk func(ms protoreflect.MessageDescriptors)
	walk = func(ms protoreflect.MessageDescriptors) {
		for i := 0; i < ms.Len(); i++ {
			if ms.Get(i).IsMapEntry() {
				continue
			}
			out = append(out, ms.Get(i))
			walk(ms.Get(i).Messages())
		}
	}
	walk(fd.Messages())
	return out
}

// checkPackage runs the finite structural checks for one registered file.
func checkPackage(ctx *Ctx, fd protoreflect.FileDescriptor, tick func(what string)) error {
	if got, err := protoregistry.GlobalFiles.FindFileByPath(fd.Path()); err != nil || got != fd {
		return fmt.Errorf("file %s is not the one registered under its path", fd.Path())
	}
	tick("file registered")
	for i := 0; i < fd.Services().Len(); i++ {
		sd := fd.Services().Get(i)
		for j := 0; j < sd.Methods().Len(); j++ {
			md := sd.Methods().Get(j)
			for what, d := range map[string]protoreflect.MessageDescriptor{"input": md.Input(), "output": md.Output()} {
				if d == nil || d.IsPlaceholder() {
					return fmt.Errorf("method %s: its %s type is an unresolved placeholder", md.FullName(), what)
				}
				if reg, err := protoregistry.GlobalFiles.FindDescriptorByName(d.FullName()); err != nil || reg != d {
					return fmt.Errorf("method %s: its %s type %s is not the descriptor object the registry holds", md.FullName(), what, d.FullName())
				}
			}
			tick("method linkage " + string(md.FullName()))
		}
	}
	for i := 0; i < fd.Imports().Len(); i++ {
		imp := fd.Imports().Get(i)
		if imp.FileDescriptor == nil || imp.IsPlaceholder() {
			return fmt.Errorf("file %s: its import %s is an unresolved placeholder", fd.Path(), imp.Path())
		}
		if reg, err := protoregistry.GlobalFiles.FindFileByPath(imp.Path()); err != nil || reg != imp.FileDescriptor {
			return fmt.Errorf("file %s: its import %s is not the file the registry holds", fd.Path(), imp.Path())
		}
	}
	for _, md := range allMsgs(fd) {
		name := md.FullName()
		mt, err := protoregistry.GlobalTypes.FindMessageByName(name)
		if err != nil {
			return fmt.Errorf("message %s not in GlobalTypes: %v", name, err)
		}
		d, err := protoregistry.GlobalFiles.FindDescriptorByName(name)
		if err != nil {
			return fmt.Errorf("message %s not in GlobalFiles: %v", name, err)
		}
		if d != protoreflect.Descriptor(md) {
			return fmt.Errorf("GlobalFiles descriptor for %s is a different object", name)
		}
		if mt.Descriptor() != md {
			return fmt.Errorf("MessageType(%s).Descriptor() is not the registry's descriptor object", name)
		}
		tick("message registered " + string(name))
		m := mt.New()
		if m.Descriptor() != md {
			return fmt.Errorf("%s: ProtoReflect().Descriptor() is not the registry's descriptor object", name)
		}
		if m.Type().Descriptor() != md {
			return fmt.Errorf("%s: Type().Descriptor() is not the registry's descriptor object", name)
		}
		gt := reflect.TypeOf(m.Interface())
		for what, other := range map[string]protoreflect.Message{
			"Type().New()": m.Type().New(), "Type().Zero()": m.Type().Zero(), "New()": m.New(),
			"MessageType.Zero()": mt.Zero(), "Interface().ProtoReflect()": m.Interface().ProtoReflect(),
		} {
			if reflect.TypeOf(other.Interface()) != gt {
				return fmt.Errorf("%s: %s yields Go type %T, want %v", name, what, other.Interface(), gt)
			}
			if other.Descriptor() != md {
				return fmt.Errorf("%s: %s reports a different descriptor", name, what)
			}
		}
		if !m.IsValid() || m.Type().Zero().IsValid() {
			return fmt.Errorf("%s: validity of New()/Zero() is wrong", name)
		}
		tick("go type identities " + string(name))
		if err := legacyPath(m.Interface(), "Descriptor", md); err != nil {
			return err
		}
		// field descriptors used by Range are the registry's, and every type a
		// field refers to is the registry's own descriptor object (no placeholder)
		fds := md.Fields()
		for i := 0; i < fds.Len(); i++ {
			fdd := fds.Get(i)
			if fdd.ContainingMessage() != md {
				return fmt.Errorf("%s.%s: ContainingMessage is a different object", name, fdd.Name())
			}
			check := func(what string, d protoreflect.Descriptor) error {
				if d == nil {
					return nil
				}
				if ph, ok := d.(interface{ IsPlaceholder() bool }); ok && ph.IsPlaceholder() {
					return fmt.Errorf("%s.%s: its %s type %s is a placeholder descriptor (never linked)", name, fdd.Name(), what, d.FullName())
				}
				reg, err := protoregistry.GlobalFiles.FindDescriptorByName(d.FullName())
				if err != nil {
					return fmt.Errorf("%s.%s: its %s type %s is not in GlobalFiles: %v", name, fdd.Name(), what, d.FullName(), err)
				}
				if reg != d {
					return fmt.Errorf("%s.%s: its %s type %s is not the descriptor object the registry holds", name, fdd.Name(), what, d.FullName())
				}
				return nil
			}
			var ferr error
			switch {
			case fdd.IsMap():
				if m := fdd.MapValue().Message(); m != nil {
					ferr = check("map value message", m)
				}
				if e := fdd.MapValue().Enum(); e != nil && ferr == nil {
					ferr = check("map value enum", e)
				}
			case fdd.Message() != nil:
				ferr = check("message", fdd.Message())
			case fdd.Enum() != nil:
				ferr = check("enum", fdd.Enum())
			}
			if ferr != nil {
				return ferr
			}
		}
		tick("field type linkage " + string(name))
	}
	for _, ed := range allEnums(fd) {
		et, err := protoregistry.GlobalTypes.FindEnumByName(ed.FullName())
		if err != nil {
			return fmt.Errorf("enum %s not in GlobalTypes: %v", ed.FullName(), err)
		}
		if err := legacyPath(et.New(0), "EnumDescriptor", ed); err != nil {
			return err
		}
		if et.Descriptor() != ed {
			return fmt.Errorf("EnumType(%s).Descriptor() is not the registry's descriptor object", ed.FullName())
		}
		nums := []protoreflect.EnumNumber{-7, 3, 12345, 2147483647, -2147483648}
		for i := 0; i < ed.Values().Len(); i++ {
			nums = append(nums, ed.Values().Get(i).Number())
		}
		for _, n := range nums {
			e := et.New(n)
			if e.Number() != n {
				return fmt.Errorf("enum %s: New(%d).Number() = %d", ed.FullName(), n, e.Number())
			}
			if e.Descriptor() != ed || e.Type().Descriptor() != ed {
				return fmt.Errorf("enum %s: Descriptor/Type of a value is not the registry's", ed.FullName())
			}
			want := strconv.Itoa(int(n))
			if v := ed.Values().ByNumber(n); v != nil {
				want = string(v.Name())
			}
			if s, ok := e.(fmt.Stringer); ok {
				if s.String() != want {
					return fmt.Errorf("enum %s: String() of %d = %q, want %q", ed.FullName(), n, s.String(), want)
				}
			} else {
				return fmt.Errorf("enum %s: Go type has no String method", ed.FullName())
			}
			tick(fmt.Sprintf("enum %s value %d", ed.FullName(), n))
		}
	}
	return nil
}

func runC19(ctx *Ctx) {
	if ctx.Shard == 0 {
		finite := func(sub, key string, f func(tick func(string)) error) {
			err := safely(func() error {
				return f(func(what string) {
					ctx.Eval(1)
					ctx.Nontrivial(sub, key, what)
				})
			})
			if err != nil {
				ctx.Violation(&Case{Sub: sub, Args: map[string]string{"key": key}}, err.Error())
				ctx.T.Fail()
			}
		}
		// freshly generated packages: registered descriptor == request
		units, err := loadUnits()
		if err != nil {
			fmt.Printf("HARNESS-ERROR %v\n", err)
			ctx.T.Fail()
			return
		}
		for _, u := range units {
			u := u
			if !u.CompileOK {
				continue
			}
			finite("descriptor", u.Proto, func(tick func(string)) error {
				raw, _ := hex.DecodeString(u.Descriptor)
				want := &descriptorpb.FileDescriptorProto{}
				if err := (proto.UnmarshalOptions{Resolver: protoregistry.GlobalTypes}).Unmarshal(raw, want); err != nil {
					return fmt.Errorf("HARNESS: %v", err)
				}
				reg, err := protoregistry.GlobalFiles.FindFileByPath(u.Proto)
				if err != nil {
					return fmt.Errorf("generated package %s does not register its file %s: %v", u.GoPkg, u.Proto, err)
				}
				tick("registered == request")
				if err := compareFile(ctx, reg, want, false); err != nil {
					return err
				}
				return checkPackage(ctx, reg, tick)
			})
		}
		// checked-in packages
		for _, path := range checkedInFiles {
			path := path
			finite("checked-in", path, func(tick func(string)) error {
				reg, err := protoregistry.GlobalFiles.FindFileByPath(path)
				if err != nil {
					return fmt.Errorf("checked-in file %s is not registered: %v", path, err)
				}
				if err := checkPackage(ctx, reg, tick); err != nil {
					return err
				}
				return compareWithSource(ctx, reg, tick)
			})
		}
		finite("extensions", "cosmos.pb.go", func(tick func(string)) error {
			exts := map[string]struct {
				num  protoreflect.FieldNumber
				over protoreflect.FullName
				xt   protoreflect.ExtensionType
			}{
				"cosmos_proto.method_added_in":      {93001, "google.protobuf.MethodOptions", cosmos_proto.E_MethodAddedIn},
				"cosmos_proto.implements_interface": {93001, "google.protobuf.MessageOptions", cosmos_proto.E_ImplementsInterface},
				"cosmos_proto.message_added_in":     {93002, "google.protobuf.MessageOptions", cosmos_proto.E_MessageAddedIn},
				"cosmos_proto.accepts_interface":    {93001, "google.protobuf.FieldOptions", cosmos_proto.E_AcceptsInterface},
				"cosmos_proto.scalar":               {93002, "google.protobuf.FieldOptions", cosmos_proto.E_Scalar},
				"cosmos_proto.field_added_in":       {93003, "google.protobuf.FieldOptions", cosmos_proto.E_FieldAddedIn},
				"cosmos_proto.declare_interface":    {793021, "google.protobuf.FileOptions", cosmos_proto.E_DeclareInterface},
				"cosmos_proto.declare_scalar":       {793022, "google.protobuf.FileOptions", cosmos_proto.E_DeclareScalar},
				"cosmos_proto.file_added_in":        {793023, "google.protobuf.FileOptions", cosmos_proto.E_FileAddedIn},
			}
			for name, e := range exts {
				byName, err := protoregistry.GlobalTypes.FindExtensionByName(protoreflect.FullName(name))
				if err != nil {
					return fmt.Errorf("extension %s not found by name: %v", name, err)
				}
				byNum, err := protoregistry.GlobalTypes.FindExtensionByNumber(e.over, e.num)
				if err != nil {
					return fmt.Errorf("extension %s not found by number %d on %s: %v", name, e.num, e.over, err)
				}
				if byName != byNum || byName != e.xt {
					return fmt.Errorf("extension %s resolves to different types by name, by number and through the Go variable", name)
				}
				if byName.TypeDescriptor().Number() != e.num || byName.TypeDescriptor().ContainingMessage().FullName() != e.over {
					return fmt.Errorf("extension %s has number %d over %s", name, byName.TypeDescriptor().Number(), byName.TypeDescriptor().ContainingMessage().FullName())
				}
				tick("extension " + name)
			}
			return nil
		})
		ctx.SetExhaustive(true)
		ctx.Note("package-level checks are a finite enumeration over all linked generated packages; value-level checks are sampled by rapid")
	}
	n := ctx.N(1500, 15000)
	for _, t := range ctx.types() {
		t := t
		ctx.CheckRapid(string(t.Name), n, func(rt *rapid.T) *Case {
			b, d := ctx.genTypeStream(rt, t, rapid.IntRange(0, 3).Draw(rt, "unknown") == 0, true)
			if d == nil {
				return nil
			}
			return &Case{Sub: "value", Type: string(t.Name), Bytes: hexs(b)}
		}, func(c *Case) error { return checkC19Value(ctx, c) })
	}
}

var checkedInFiles = []string{"1.proto", "2.proto", "3.proto",
	"internal/testprotos/test3/test.proto", "internal/testprotos/test3/test_import.proto", "internal/testprotos/test3/test_nesting.proto",
	"cosmos_proto/cosmos.proto"}

// goFieldFor finds, by struct tags, the getter name for fd on message type rt
// (a struct type). For oneof members the tag sits in the wrapper struct.
func getterName(t *model.Type, fd protoreflect.FieldDescriptor) (string, error) {
	want := "name=" + string(fd.Name())
	match := func(tag string) bool {
		for _, part := range strings.Split(tag, ",") {
			if part == want {
				return true
			}
		}
		return false
	}
	st := t.GoType.Elem()
	for i := 0; i < st.NumField(); i++ {
		f := st.Field(i)
		if tag, ok := f.Tag.Lookup("protobuf"); ok && match(tag) {
			return "Get" + f.Name, nil
		}
	}
	for _, w := range t.MI.OneofWrappers {
		wt := reflect.TypeOf(w).Elem()
		for i := 0; i < wt.NumField(); i++ {
			f := wt.Field(i)
			if tag, ok := f.Tag.Lookup("protobuf"); ok && match(tag) {
				return "Get" + f.Name, nil
			}
		}
	}
	return "", fmt.Errorf("no Go struct field carries the protobuf tag for field %s of %s", fd.Name(), t.Name)
}

func compareGetter(fd protoreflect.FieldDescriptor, gv reflect.Value, pv protoreflect.Value, has bool) error {
	scalar := func(sfd protoreflect.FieldDescriptor, g reflect.Value, p protoreflect.Value) error {
		var bad bool
		switch sfd.Kind() {
		case protoreflect.BoolKind:
			bad = g.Bool() != p.Bool()
		case protoreflect.EnumKind:
			bad = g.Int() != int64(p.Enum())
		case protoreflect.Int32Kind, protoreflect.Sint32Kind, protoreflect.Sfixed32Kind, protoreflect.Int64Kind, protoreflect.Sint64Kind, protoreflect.Sfixed64Kind:
			bad = g.Int() != p.Int()
		case protoreflect.Uint32Kind, protoreflect.Fixed32Kind, protoreflect.Uint64Kind, protoreflect.Fixed64Kind:
			bad = g.Uint() != p.Uint()
		case protoreflect.FloatKind:
			bad = fmt.Sprintf("%08x", f32bits(g.Float())) != fmt.Sprintf("%08x", f32bits(p.Float()))
		case protoreflect.DoubleKind:
			bad = f64bits(g.Float()) != f64bits(p.Float())
		case protoreflect.StringKind:
			bad = g.String() != p.String()
		case protoreflect.BytesKind:
			bad = !bytes.Equal(g.Bytes(), p.Bytes())
		case protoreflect.MessageKind:
			if g.IsNil() {
				bad = p.Message().IsValid()
			} else {
				gm := g.Interface().(proto.Message)
				bad = model.Canon(gm.ProtoReflect(), model.Same) != model.Canon(p.Message(), model.Same)
			}
		}
		if bad {
			return fmt.Errorf("getter returns %v, Get returns %v", g.Interface(), p.Interface())
		}
		return nil
	}
	switch {
	case fd.IsList():
		l := pv.List()
		if gv.Len() != l.Len() {
			return fmt.Errorf("getter returns %d elements, Get returns %d", gv.Len(), l.Len())
		}
		for i := 0; i < l.Len(); i++ {
			if err := scalar(fd, gv.Index(i), l.Get(i)); err != nil {
				return fmt.Errorf("element %d: %v", i, err)
			}
		}
	case fd.IsMap():
		mp := pv.Map()
		if gv.Len() != mp.Len() {
			return fmt.Errorf("getter returns %d entries, Get returns %d", gv.Len(), mp.Len())
		}
		var err error
		mp.Range(func(k protoreflect.MapKey, v protoreflect.Value) bool {
			gk := reflect.ValueOf(k.Interface()).Convert(gv.Type().Key())
			ge := gv.MapIndex(gk)
			if !ge.IsValid() {
				err = fmt.Errorf("key %v missing from the getter's map", k.Interface())
				return false
			}
			if e := scalar(fd.MapValue(), ge, v); e != nil {
				err = fmt.Errorf("key %v: %v", k.Interface(), e)
				return false
			}
			return true
		})
		return err
	default:
		return scalar(fd, gv, pv)
	}
	return nil
}

func checkC19Value(ctx *Ctx, c *Case) error {
	if c.Sub != "value" {
		return fmt.Errorf("HARNESS: the package-level checks of C19 are enumerations without a saved case; run ./check C19")
	}
	t, err := mustType(c.Type)
	if err != nil {
		return err
	}
	d, err := decodeD(t, unhex(c.Bytes))
	if err != nil {
		return nil
	}
	want := canonD(d.ProtoReflect())
	p := model.BuildP(t, d.ProtoReflect())
	fds := t.Desc.Fields()
	for _, recv := range []struct {
		name string
		m    proto.Message
	}{{"populated", p}, {"nil receiver", t.Nil()}, {"new", t.New()}} {
		rv := reflect.ValueOf(recv.m)
		pm := recv.m.ProtoReflect()
		for i := 0; i < fds.Len(); i++ {
			fd := fds.Get(i)
			gname, err := getterName(t, fd)
			if err != nil {
				return err
			}
			meth := rv.MethodByName(gname)
			if !meth.IsValid() {
				return fmt.Errorf("%s has no getter %s for field %s", t.Name, gname, fd.Name())
			}
			var out []reflect.Value
			if err := safely(func() error { out = meth.Call(nil); return nil }); err != nil {
				return fmt.Errorf("%s.%s() on %s message: %v", t.Name, gname, recv.name, err)
			}
			if err := compareGetter(fd, out[0], pm.Get(fd), pm.Has(fd)); err != nil {
				return fmt.Errorf("%s.%s() on %s message: %v", t.Name, gname, recv.name, err)
			}
		}
	}
	// oneof getters: Get<Oneof>() returns the wrapper of the set member
	for i := 0; i < t.Desc.Oneofs().Len(); i++ {
		od := t.Desc.Oneofs().Get(i)
		which := p.ProtoReflect().WhichOneof(od)
		iwhich := model.ImplOf(p).WhichOneof(od)
		if (which == nil) != (iwhich == nil) || (which != nil && which.Number() != iwhich.Number()) {
			return fmt.Errorf("WhichOneof(%s) disagrees with the struct", od.Name())
		}
	}
	// String() renders text that parses back to an equal message (no unknown fields)
	if len(d.GetUnknown()) == 0 && !strings.Contains(want, "?") {
		if s, ok := p.(fmt.Stringer); ok {
			txt := s.String()
			back := t.NewD()
			if err := prototext.Unmarshal([]byte(txt), back); err != nil {
				// Any with unresolvable URL etc. render in expanded/raw form that may not parse; only
				// count it when the reference's own text has the same problem
				rtxt := prototext.Format(d)
				if prototext.Unmarshal([]byte(rtxt), t.NewD()) == nil {
					return fmt.Errorf("String() output does not parse back: %v\n%s", err, trunc(txt, 400))
				}
				ctx.Label("String(): reference text does not parse back either (not asserted)")
			} else if !proto.Equal(back, d) {
				return fmt.Errorf("String() output parses back to a different message:\n%s", trunc(txt, 400))
			}
		} else {
			return fmt.Errorf("%s has no String method", t.Name)
		}
	}
	// Reset
	if r, ok := p.(interface{ Reset() }); ok {
		r.Reset()
		if got := canonI(p); got != "{}" {
			return fmt.Errorf("Reset() left %s", trunc(got, 200))
		}
	} else {
		return fmt.Errorf("%s has no Reset method", t.Name)
	}
	if want != "{}" {
		ctx.Nontrivial(c.Type, c.Bytes)
	}
	return nil
}

func f32bits(f float64) uint32 { return mathFloat32bits(float32(f)) }

// legacyPath checks the deprecated generated method Descriptor() /
// EnumDescriptor(), which returns the gzipped raw file descriptor and the index
// path of the type inside it: following the path must arrive at the type itself.
func legacyPath(v interface{}, method string, d protoreflect.Descriptor) error {
	mv := reflect.ValueOf(v).MethodByName(method)
	if !mv.IsValid() || mv.Type().NumIn() != 0 || mv.Type().NumOut() != 2 {
		return nil // not generated for this type
	}
	out := mv.Call(nil)
	gz, ok1 := out[0].Interface().([]byte)
	path, ok2 := out[1].Interface().([]int)
	if !ok1 || !ok2 {
		return nil
	}
	zr, err := gzip.NewReader(bytes.NewReader(gz))
	if err != nil {
		return fmt.Errorf("%s: %s() does not return gzipped data: %v", d.FullName(), method, err)
	}
	raw, err := io.ReadAll(zr)
	if err != nil {
		return fmt.Errorf("%s: %s() does not return gzipped data: %v", d.FullName(), method, err)
	}
	fdp := &descriptorpb.FileDescriptorProto{}
	if err := (proto.UnmarshalOptions{AllowPartial: true}).Unmarshal(raw, fdp); err != nil {
		return fmt.Errorf("%s: %s() does not return a file descriptor: %v", d.FullName(), method, err)
	}
	if fdp.GetName() != d.ParentFile().Path() {
		return fmt.Errorf("%s: %s() returns the descriptor of file %q, the type lives in %q", d.FullName(), method, fdp.GetName(), d.ParentFile().Path())
	}
	if len(path) == 0 {
		return fmt.Errorf("%s: %s() returns an empty path", d.FullName(), method)
	}
	name := fdp.GetPackage()
	join := func(n string) {
		if name == "" {
			name = n
		} else {
			name += "." + n
		}
	}
	_, isEnum := d.(protoreflect.EnumDescriptor)
	var cur *descriptorpb.DescriptorProto
	for i, idx := range path {
		last := i == len(path)-1
		switch {
		case last && isEnum && cur == nil:
			if idx < 0 || idx >= len(fdp.EnumType) {
				return fmt.Errorf("%s: %s() path %v leaves the file (no top-level enum #%d)", d.FullName(), method, path, idx)
			}
			join(fdp.EnumType[idx].GetName())
		case last && isEnum:
			if idx < 0 || idx >= len(cur.EnumType) {
				return fmt.Errorf("%s: %s() path %v names no enum (no nested enum #%d in %s)", d.FullName(), method, path, idx, name)
			}
			join(cur.EnumType[idx].GetName())
		case cur == nil:
			if idx < 0 || idx >= len(fdp.MessageType) {
				return fmt.Errorf("%s: %s() path %v leaves the file (no top-level message #%d)", d.FullName(), method, path, idx)
			}
			cur = fdp.MessageType[idx]
			join(cur.GetName())
		default:
			if idx < 0 || idx >= len(cur.NestedType) {
				return fmt.Errorf("%s: %s() path %v names nothing (no nested message #%d in %s)", d.FullName(), method, path, idx, name)
			}
			cur = cur.NestedType[idx]
			join(cur.GetName())
		}
	}
	if name != string(d.FullName()) {
		return fmt.Errorf("%s: the path %v returned by the generated %s() leads to %s", d.FullName(), path, method, name)
	}
	return nil
}
