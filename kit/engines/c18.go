package engines

import (
	"fmt"
	"os"
	"path/filepath"
	"regexp"
	"strconv"
	"strings"
	"sync"
	"unicode/utf8"

	"github.com/cosmos/cosmos-proto/rapidproto"
	"google.golang.org/protobuf/proto"
	"google.golang.org/protobuf/reflect/protodesc"
	"google.golang.org/protobuf/reflect/protoreflect"
	"google.golang.org/protobuf/reflect/protoregistry"
	"google.golang.org/protobuf/types/descriptorpb"
	"google.golang.org/protobuf/types/dynamicpb"
	"google.golang.org/protobuf/types/known/anypb"
	"google.golang.org/protobuf/types/known/durationpb"
	"google.golang.org/protobuf/types/known/fieldmaskpb"
	"google.golang.org/protobuf/types/known/timestamppb"
	"pgregory.net/rapid"

	"verif/kit/model"
)

func init() {
	register(&Engine{
		ID:   "C18",
		Desc: "rapidproto generators always yield valid, well-formed messages",
		Rule: "rapid.Check over (message type, option set): types = every generated type without explosive recursion (a cycle through a repeated or map field; those are listed as excluded), types with linear recursion, types embedding Timestamp/Duration/Any/FieldMask in singular/repeated/map/oneof positions, sparse and negative enums, the four well-known types themselves and a dynamicpb type; option set = all 16 combinations of NoEmptyLists, DisallowNilMessages, AnyTypeURLs+Resolver, sentinel FieldMapper. Each drawn message is checked node by node. Non-trivial: message with >= 1 populated field; distinct by digest of (type, options, deterministic bytes). The generator under test draws from the same rapid.T, so rapid shrinks and replays the whole case by its seed; the saved case records type, option set and the failing message bytes.",
		Run:  runC18, Replay: replayC18,
		Assumptions: []string{"an option set with AnyTypeURLs always carries a Resolver and interface hints (otherwise the package panics by design)", "termination is bounded per case; explosive-recursion types are excluded and listed"},
	})
}

// type URLs in every accepted spelling: the type name is what follows the LAST slash
var anyURLs = []string{"/B", "/google.protobuf.Timestamp", "/verif.impa.Point", "/verif.kinds.Scalars",
	"type.googleapis.com/google.protobuf.Duration", "types.example.com/v1/B", "https://host.example/path/to/verif.impa.Point"}

// fmDrawRange reads, from the generator's source, how many paths one draw of
// genFieldMask yields (rapid.SliceOfN(..., lo, hi).Draw(t, "paths")). If the
// source does not have that shape any more the range is not asserted.
var fmRange struct {
	once   sync.Once
	lo, hi int
	ok     bool
}

func fmDrawRange() (int, int, bool) {
	fmRange.once.Do(func() {
		repo := os.Getenv("VERIF_REPO")
		if repo == "" {
			repo = "/repo"
		}
		src, err := os.ReadFile(filepath.Join(repo, "rapidproto", "rapidproto.go"))
		if err != nil {
			return
		}
		i := strings.Index(string(src), "func (opts GeneratorOptions) genFieldMask(")
		if i < 0 {
			return
		}
		body := string(src)[i:]
		if j := strings.Index(body[1:], "\nfunc "); j > 0 {
			body = body[:j+1]
		}
		m := regexp.MustCompile(`rapid\.SliceOfN\(.*,\s*(\d+),\s*(\d+)\)\.Draw\(t, "paths"\)`).FindAllStringSubmatch(body, -1)
		if len(m) != 1 {
			return
		}
		fmRange.lo, _ = strconv.Atoi(m[0][1])
		fmRange.hi, _ = strconv.Atoi(m[0][2])
		fmRange.ok = fmRange.hi >= fmRange.lo && fmRange.lo >= 0
	})
	return fmRange.lo, fmRange.hi, fmRange.ok
}

// nestLimit is the generator's nesting limit (`const depthLimit = N` in its
// source): a message at nesting depth <= N is generated in full, so its scalar
// lists obey NoEmptyLists, and its message-typed fields (whose values sit one
// level deeper) obey the options at depth <= N-1. If the constant cannot be
// read, 8 is assumed, which only makes the check more lenient.
var nestLim struct {
	once sync.Once
	n    int
}

func nestLimit() int {
	nestLim.once.Do(func() {
		nestLim.n = 8
		repo := os.Getenv("VERIF_REPO")
		if repo == "" {
			repo = "/repo"
		}
		src, err := os.ReadFile(filepath.Join(repo, "rapidproto", "rapidproto.go"))
		if err != nil {
			return
		}
		if m := regexp.MustCompile(`(?m)^const depthLimit = (\d+)$`).FindSubmatch(src); m != nil {
			if n, err := strconv.Atoi(string(m[1])); err == nil && n >= 1 && n <= 64 {
				nestLim.n = n
			}
		}
	})
	return nestLim.n
}

var fmPath = regexp.MustCompile(`^[a-z]+([.][a-z]+){0,2}$`)

const sentinel = "☃sentinel:"

// int32 fields are mapped to sentinelInt32 .. sentinelInt32+7
const sentinelInt32 = 424200

// reaches reports whether from can reach target through message-typed fields.
func reaches(from, target protoreflect.MessageDescriptor, seen map[protoreflect.FullName]bool) bool {
	if from.FullName() == target.FullName() {
		return true
	}
	if seen[from.FullName()] {
		return false
	}
	seen[from.FullName()] = true
	fds := from.Fields()
	for i := 0; i < fds.Len(); i++ {
		fd := fds.Get(i)
		to := fd.Message()
		if fd.IsMap() {
			to = fd.MapValue().Message()
		}
		if to != nil && reaches(to, target, seen) {
			return true
		}
	}
	return false
}

// explosive reports whether drawing md under the given option mask has a
// super-critical expected size: some reachable recursive type R reaches itself
// through a repeated/map field (up to 10 children per node), or through >= 2
// singular message fields when DisallowNilMessages populates all of them
// (2^10 nodes at the depth limit), or through >= 3 when each is populated with
// probability 1/2. Generation would be finite but astronomically large.
func explosive(md protoreflect.MessageDescriptor, disallowNil bool) bool {
	seen := map[protoreflect.FullName]bool{}
	var walk func(cur protoreflect.MessageDescriptor) bool
	walk = func(cur protoreflect.MessageDescriptor) bool {
		if seen[cur.FullName()] {
			return false
		}
		seen[cur.FullName()] = true
		single := 0
		fds := cur.Fields()
		for i := 0; i < fds.Len(); i++ {
			fd := fds.Get(i)
			to := fd.Message()
			multi := fd.IsList()
			if fd.IsMap() {
				to, multi = fd.MapValue().Message(), true
			}
			if to == nil {
				continue
			}
			if reaches(to, cur, map[protoreflect.FullName]bool{}) {
				if multi {
					return true
				}
				single++
			}
		}
		if (disallowNil && single >= 2) || single >= 3 {
			return true
		}
		for i := 0; i < fds.Len(); i++ {
			fd := fds.Get(i)
			to := fd.Message()
			if fd.IsMap() {
				to = fd.MapValue().Message()
			}
			if to != nil && walk(to) {
				return true
			}
		}
		return false
	}
	return walk(md)
}

type c18Type struct {
	name string
	new  func() proto.Message
	desc protoreflect.MessageDescriptor
}

func c18Types(ctx *Ctx) []c18Type {
	var out []c18Type
	var excluded []string
	for _, t := range model.TypesNoBulk() {
		t := t
		if explosive(t.Desc, false) {
			excluded = append(excluded, string(t.Name))
			continue
		}
		if explosive(t.Desc, true) {
			excluded = append(excluded, string(t.Name)+" (only with DisallowNilMessages)")
		}
		out = append(out, c18Type{string(t.Name), t.New, t.Desc})
	}
	if ctx.Shard == 0 {
		ctx.Extra("excluded_explosive_recursion", excluded)
	}
	out = append(out,
		c18Type{"google.protobuf.Timestamp", func() proto.Message { return &timestamppb.Timestamp{} }, nil},
		c18Type{"google.protobuf.Duration", func() proto.Message { return &durationpb.Duration{} }, nil},
		c18Type{"google.protobuf.Any", func() proto.Message { return &anypb.Any{} }, nil},
		c18Type{"google.protobuf.FieldMask", func() proto.Message { return &fieldmaskpb.FieldMask{} }, nil},
	)
	if t := model.TypeByName("verif.wkt.Singular"); t != nil {
		out = append(out, c18Type{"dynamic:verif.wkt.Singular", func() proto.Message { return dynamicpb.NewMessage(t.Desc) }, t.Desc})
	}
	if t := model.TypeByName("verif.kinds.Scalars"); t != nil {
		out = append(out, c18Type{"dynamic:verif.kinds.Scalars", func() proto.Message { return dynamicpb.NewMessage(t.Desc) }, t.Desc})
	}
	if md := proto2Required(); md != nil {
		out = append(out, c18Type{"dynamic:verif.c18.R2 (proto2, required message fields)", func() proto.Message { return dynamicpb.NewMessage(md) }, md})
		ch := p2req.chain
		out = append(out, c18Type{"dynamic:verif.c18.Chain (proto2, lists of messages with required fields at the nesting limit)", func() proto.Message { return dynamicpb.NewMessage(ch) }, ch})
	}
	return out
}

func c18Options(mask int) rapidproto.GeneratorOptions { return c18OptionsBuilt(mask, 0) }

// c18OptionsBuilt assembles the option set of mask in one of three ways: plain
// fields only (0), plain fields first and the With... builders after them (1),
// builders first and plain fields last (2). However it was put together, the
// set must be honoured.
func c18OptionsBuilt(mask, build int) rapidproto.GeneratorOptions {
	var o rapidproto.GeneratorOptions
	var plainURLs []string        // spellings WithAnyTypes cannot produce
	var urlTypes []proto.Message // the "/<full name>" ones, as messages
	if mask&4 != 0 {
		for _, u := range anyURLs {
			if build != 0 && strings.HasPrefix(u, "/") {
				if mt, err := protoregistry.GlobalTypes.FindMessageByURL(u); err == nil {
					urlTypes = append(urlTypes, mt.New().Interface())
					continue
				}
			}
			plainURLs = append(plainURLs, u)
		}
	}
	builders := func() {
		if mask&2 != 0 && build != 0 {
			o = o.WithDisallowNil()
		}
		if len(urlTypes) > 0 {
			o = o.WithAnyTypes(urlTypes...)
		}
		if dog := model.TypeByName("verif.opts.Dog"); dog != nil {
			o = o.WithInterfaceHint("verif.opts.Animal", dog.New())
		}
	}
	if build == 2 {
		builders()
	}
	o.NoEmptyLists = mask&1 != 0
	if build == 0 {
		o.DisallowNilMessages = mask&2 != 0
	}
	if mask&4 != 0 {
		o.AnyTypeURLs = append(o.AnyTypeURLs, plainURLs...)
		o.Resolver = protoregistry.GlobalTypes
	}
	o = c18Mappers(o, mask)
	if build != 2 {
		builders()
	}
	return o
}

func c18Mappers(o rapidproto.GeneratorOptions, mask int) rapidproto.GeneratorOptions {
	if mask&8 != 0 {
		// three mappers: the first declines everything, the second claims int32
		// fields, the third strings - every one of them must be consulted
		o.FieldMaps = []rapidproto.FieldMapper{
			func(*rapid.T, protoreflect.FieldDescriptor, string) (protoreflect.Value, bool) {
				return protoreflect.Value{}, false
			},
			func(t *rapid.T, fd protoreflect.FieldDescriptor, name string) (protoreflect.Value, bool) {
				if fd.Kind() != protoreflect.Int32Kind {
					return protoreflect.Value{}, false
				}
				return protoreflect.ValueOfInt32(sentinelInt32 + int32(rapid.IntRange(0, 7).Draw(t, name))), true
			},
			func(t *rapid.T, fd protoreflect.FieldDescriptor, name string) (protoreflect.Value, bool) {
				if fd.Kind() != protoreflect.StringKind {
					return protoreflect.Value{}, false
				}
				return protoreflect.ValueOfString(sentinel + rapid.StringMatching("[a-z]{0,3}").Draw(t, name)), true
			},
			// enum fields: always the value declared LAST
			func(t *rapid.T, fd protoreflect.FieldDescriptor, name string) (protoreflect.Value, bool) {
				if fd.Kind() != protoreflect.EnumKind || fd.Enum().Values().Len() == 0 {
					return protoreflect.Value{}, false
				}
				vals := fd.Enum().Values()
				return protoreflect.ValueOfEnum(vals.Get(vals.Len() - 1).Number()), true
			}}
	}
	return o
}

func runC18(ctx *Ctx) {
	if os.Getenv("VERIF_CHILD") == "c18chain" {
		chainChild()
		return
	}
	types := c18Types(ctx)
	n := ctx.N(50, 600)
	idx := 0
	for _, ty := range types {
		for mask := 0; mask < 16; mask++ {
			if ty.desc != nil && mask&2 != 0 && explosive(ty.desc, true) {
				continue
			}
			idx++
			if idx%ctx.NShards != ctx.Shard {
				continue
			}
			ty, mask := ty, mask
			build := idx % 3
			opts := c18OptionsBuilt(mask, build)
			ctx.CheckRapid(fmt.Sprintf("%s/opts=%d", ty.name, mask), n, func(rt *rapid.T) *Case {
				c := &Case{Type: ty.name, Args: map[string]string{"opts": fmt.Sprint(mask), "build": fmt.Sprint(build)}}
				var m proto.Message
				err := func() (err error) {
					defer func() {
						if r := recover(); r != nil {
							// rapid steers itself with panics of its own types: pass them on
							tn := fmt.Sprintf("%T", r)
							if tn == "rapid.stopTest" {
								// the generator under test failed the rapid test itself (its
								// assertions call FailNow on the *rapid.T): that is its verdict
								// on its own inputs, not a steering signal
								err = fmt.Errorf("the generator aborted instead of yielding a message: %v", r)
								return
							}
							if strings.HasPrefix(tn, "rapid.") || strings.HasPrefix(tn, "*rapid.") {
								panic(r)
							}
							err = fmt.Errorf("panic: %v", r)
						}
					}()
					m = rapidproto.MessageGenerator[proto.Message](ty.new(), opts).Draw(rt, "msg")
					return nil
				}()
				if err != nil {
					c.Args["genpanic"] = err.Error()
					return c
				}
				b, err := det.Marshal(m)
				if err != nil {
					c.Args["marshalerr"] = err.Error()
				}
				c.Bytes = hexs(b)
				c.Args["live"] = "1"
				liveMsgs[c] = m
				return c
			}, func(c *Case) error {
				m := liveMsgs[c]
				delete(liveMsgs, c)
				return checkC18(ctx, c, m, opts, mask)
			})
		}
	}
	runC18Chain(ctx)
}

// liveMsgs hands the drawn message from the generator half to the check half
// of the same rapid iteration (the message itself is not serialisable when
// marshalling fails; the Case keeps bytes for the report).
var liveMsgs = map[*Case]proto.Message{}

func checkC18(ctx *Ctx, c *Case, m proto.Message, opts rapidproto.GeneratorOptions, mask int) error {
	if p := c.arg("genpanic"); p != "" {
		return fmt.Errorf("MessageGenerator(%s, opts=%d) panicked while drawing: %s", c.Type, mask, p)
	}
	if e := c.arg("marshalerr"); e != "" {
		return fmt.Errorf("drawn message does not marshal: %s", e)
	}
	if m == nil {
		return fmt.Errorf("HARNESS: live message missing")
	}
	b := unhex(c.Bytes)
	// reference marshaller accepts it and it round-trips
	d := dynamicpb.NewMessage(m.ProtoReflect().Descriptor())
	if err := proto.Unmarshal(b, d); err != nil {
		return fmt.Errorf("reference decoder rejects the drawn message's encoding: %v", err)
	}
	if _, err := proto.Marshal(d); err != nil {
		return fmt.Errorf("reference marshaller rejects the drawn message: %v", err)
	}
	back := m.ProtoReflect().New().Interface()
	if err := proto.Unmarshal(b, back); err != nil {
		return fmt.Errorf("drawn message does not round-trip: %v", err)
	}
	if got, want := model.Canon(back.ProtoReflect(), model.Same), model.Canon(m.ProtoReflect(), model.Same); got != want {
		return fmt.Errorf("drawn message changes in a wire round trip: %s", diffStr(got, want))
	}
	// the predicates are those of the option set that was ASKED for (mask), not of
	// the struct the builders returned: a builder that loses a flag must show
	if err := c18Walk(m.ProtoReflect(), c18Options(mask), mask, 0, string(m.ProtoReflect().Descriptor().Name())); err != nil {
		return err
	}
	if len(b) > 0 {
		ctx.Nontrivial(c.Type, c.arg("opts"), c.Bytes)
	}
	ctx.Label(fmt.Sprintf("opts=%02d", mask))
	return nil
}

func c18Walk(m protoreflect.Message, opts rapidproto.GeneratorOptions, mask, depth int, path string) error {
	md := m.Descriptor()
	// the generator never draws unknown fields: bytes that decode "successfully"
	// but leave unknown fields behind (an Any value that is really another type's
	// encoding) are not a value of the type the URL names
	if u := m.GetUnknown(); len(u) > 0 {
		return fmt.Errorf("%s: %s carries %d bytes of unknown fields: the bytes are not an encoding of that type", path, md.FullName(), len(u))
	}
	switch md.FullName() {
	case "google.protobuf.Timestamp":
		ts := &timestamppb.Timestamp{Seconds: m.Get(md.Fields().ByName("seconds")).Int(), Nanos: int32(m.Get(md.Fields().ByName("nanos")).Int())}
		if err := ts.CheckValid(); err != nil {
			return fmt.Errorf("%s: invalid Timestamp drawn: %v", path, err)
		}
		return nil
	case "google.protobuf.Duration":
		du := &durationpb.Duration{Seconds: m.Get(md.Fields().ByName("seconds")).Int(), Nanos: int32(m.Get(md.Fields().ByName("nanos")).Int())}
		if err := du.CheckValid(); err != nil {
			return fmt.Errorf("%s: invalid Duration drawn: %v", path, err)
		}
		return nil
	case "google.protobuf.FieldMask":
		l := m.Get(md.Fields().ByName("paths")).List()
		if l.Len() < 1 {
			return fmt.Errorf("%s: FieldMask drawn without the paths that were drawn for it (empty)", path)
		}
		if lo, hi, ok := fmDrawRange(); ok && (l.Len() < lo || l.Len() > hi) {
			return fmt.Errorf("%s: FieldMask carries %d paths although one draw of the generator yields %d..%d: these are not (only) the paths drawn for it", path, l.Len(), lo, hi)
		}
		for i := 0; i < l.Len(); i++ {
			if !fmPath.MatchString(l.Get(i).String()) {
				return fmt.Errorf("%s: FieldMask path %q does not match the generator's pattern", path, l.Get(i).String())
			}
		}
		return nil
	case "google.protobuf.Any":
		url := m.Get(md.Fields().ByName("type_url")).String()
		val := m.Get(md.Fields().ByName("value")).Bytes()
		if mask&4 == 0 {
			if url != "" || len(val) != 0 {
				return fmt.Errorf("%s: Any populated although no type URLs were configured", path)
			}
			return nil
		}
		if depth > 9 && url == "" && len(val) == 0 {
			return nil // beyond the generator's nesting limit nothing is generated
		}
		ok := false
		for _, u := range opts.AnyTypeURLs {
			ok = ok || u == url
		}
		if hint, has := opts.InterfaceHints["verif.opts.Animal"]; has && url == "/"+hint {
			ok = true
		}
		if !ok {
			return fmt.Errorf("%s: Any carries URL %q which is not one of the configured URLs", path, url)
		}
		mt, err := opts.Resolver.FindMessageByURL(url)
		if err != nil {
			return fmt.Errorf("%s: Any URL %q does not resolve: %v", path, url, err)
		}
		inner := mt.New()
		if err := proto.Unmarshal(val, inner.Interface()); err != nil {
			return fmt.Errorf("%s: Any value does not decode as %s: %v", path, url, err)
		}
		return c18Walk(inner, opts, mask, depth+1, path+".<any>")
	}
	fds := md.Fields()
	for i := 0; i < fds.Len(); i++ {
		fd := fds.Get(i)
		p := path + "." + string(fd.Name())
		isAny := fd.Message() != nil && fd.Message().FullName() == "google.protobuf.Any"
		if fd.IsMap() && fd.MapValue().Message() != nil {
			isAny = fd.MapValue().Message().FullName() == "google.protobuf.Any"
		}
		scalar := func(sfd protoreflect.FieldDescriptor, v protoreflect.Value, where string) error {
			if depth > 9 {
				return nil // beyond the generator's nesting limit nothing is generated
			}
			switch sfd.Kind() {
			case protoreflect.StringKind:
				if !utf8.ValidString(v.String()) {
					return fmt.Errorf("%s: invalid UTF-8 string drawn", where)
				}
				if mask&8 != 0 && !strings.HasPrefix(v.String(), sentinel) {
					return fmt.Errorf("%s: field mapper not honoured: string %q was not produced by the mapper", where, trunc(v.String(), 40))
				}
			case protoreflect.Int32Kind:
				if x := int32(v.Int()); mask&8 != 0 && (x < sentinelInt32 || x > sentinelInt32+7) {
					return fmt.Errorf("%s: field mapper not honoured: int32 value %d was not produced by the second mapper of the list", where, x)
				}
			case protoreflect.EnumKind:
				if sfd.Enum().Values().ByNumber(v.Enum()) == nil {
					return fmt.Errorf("%s: enum value %d is not declared by %s", where, v.Enum(), sfd.Enum().FullName())
				}
				if vals := sfd.Enum().Values(); mask&8 != 0 && vals.Len() > 0 && v.Enum() != vals.Get(vals.Len()-1).Number() {
					return fmt.Errorf("%s: field mapper not honoured: enum value %d was not produced by the mapper for enum fields (it answers %d)", where, v.Enum(), vals.Get(vals.Len()-1).Number())
				}
			}
			return nil
		}
		switch {
		case fd.IsList():
			l := m.Get(fd).List()
			if opts.NoEmptyLists && fd.Message() == nil && l.Len() == 0 && depth <= nestLimit() {
				return fmt.Errorf("%s: empty list drawn although NoEmptyLists is set", p)
			}
			if opts.NoEmptyLists && fd.Message() != nil && l.Len() == 0 && depth <= nestLimit()-1 && !(isAny && mask&4 == 0) {
				return fmt.Errorf("%s: empty list of messages drawn although NoEmptyLists is set", p)
			}
			for j := 0; j < l.Len(); j++ {
				if fd.Message() != nil {
					if err := c18Walk(l.Get(j).Message(), opts, mask, depth+1, fmt.Sprintf("%s[%d]", p, j)); err != nil {
						return err
					}
				} else if err := scalar(fd, l.Get(j), p); err != nil {
					return err
				}
			}
		case fd.IsMap():
			var err error
			m.Get(fd).Map().Range(func(k protoreflect.MapKey, v protoreflect.Value) bool {
				if err = scalar(fd.MapKey(), k.Value(), p+"<key>"); err != nil {
					return false
				}
				if fd.MapValue().Message() != nil {
					err = c18Walk(v.Message(), opts, mask, depth+1, p+"<value>")
				} else {
					err = scalar(fd.MapValue(), v, p+"<value>")
				}
				return err == nil
			})
			if err != nil {
				return err
			}
		case fd.Message() != nil:
			if !m.Has(fd) {
				if opts.DisallowNilMessages && fd.ContainingOneof() == nil && depth <= nestLimit()-1 && !(isAny && mask&4 == 0) {
					return fmt.Errorf("%s: message field left nil although DisallowNilMessages is set", p)
				}
				continue
			}
			if err := c18Walk(m.Get(fd).Message(), opts, mask, depth+1, p); err != nil {
				return err
			}
		default:
			if fd.ContainingOneof() != nil && !m.Has(fd) {
				continue
			}
			if err := scalar(fd, m.Get(fd), p); err != nil {
				return err
			}
		}
	}
	return nil
}

// replayC18 re-examines a saved case: the recorded message bytes are checked
// against the per-node predicates, and the generator is driven again for the
// recorded (type, option set) on 300 fixed rapid example seeds, which
// reproduces generator panics and systematic defects without rapid.Check.
func replayC18(ctx *Ctx, c *Case) error {
	if c.Sub == "anychain" {
		return replayChain(c)
	}
	mask := c.argInt("opts")
	opts := c18OptionsBuilt(mask, c.argInt("build"))
	var ty *c18Type
	for _, t := range c18Types(ctx) {
		if t.name == c.Type {
			t := t
			ty = &t
		}
	}
	if ty == nil {
		return fmt.Errorf("HARNESS: type %s not available", c.Type)
	}
	if c.Bytes != "" {
		m := ty.new()
		if err := proto.Unmarshal(unhex(c.Bytes), m); err == nil {
			if err := c18Walk(m.ProtoReflect(), c18Options(mask), mask, 0, string(m.ProtoReflect().Descriptor().Name())); err != nil {
				// the recorded message violates a predicate: only meaningful if the
				// generator still produces such messages, which the loop below decides
				ctx.Label("replay: recorded message violates predicate")
			}
		}
	}
	gen := rapidproto.MessageGenerator[proto.Message](ty.new(), opts)
	for i := 0; i < 300; i++ {
		var m proto.Message
		if err := safely(func() error { m = gen.Example(i + 1); return nil }); err != nil {
			return fmt.Errorf("MessageGenerator(%s, opts=%d) failed while drawing example %d: %v", c.Type, mask, i+1, err)
		}
		b, err := det.Marshal(m)
		cc := &Case{Type: c.Type, Bytes: hexs(b), Args: map[string]string{"opts": c.arg("opts")}}
		if err != nil {
			cc.Args["marshalerr"] = err.Error()
		}
		if err := checkC18(ctx, cc, m, opts, mask); err != nil {
			return err
		}
	}
	return nil
}

var p2req struct {
	once  sync.Once
	md    protoreflect.MessageDescriptor
	chain protoreflect.MessageDescriptor
}

// proto2Required is a proto2 message with a required message field, a required
// scalar, a list of messages that have required fields, and linear recursion.
func proto2Required() protoreflect.MessageDescriptor {
	p2req.once.Do(func() {
		opt, req, rep := descriptorpb.FieldDescriptorProto_LABEL_OPTIONAL.Enum(), descriptorpb.FieldDescriptorProto_LABEL_REQUIRED.Enum(), descriptorpb.FieldDescriptorProto_LABEL_REPEATED.Enum()
		fdp := &descriptorpb.FileDescriptorProto{
			Name: proto.String("verif/c18_r2.proto"), Package: proto.String("verif.c18"), Syntax: proto.String("proto2"),
			MessageType: []*descriptorpb.DescriptorProto{
				{Name: proto.String("Inner"), Field: []*descriptorpb.FieldDescriptorProto{
					{Name: proto.String("v"), Number: proto.Int32(1), Label: req, Type: descriptorpb.FieldDescriptorProto_TYPE_INT32.Enum(), JsonName: proto.String("v")},
					{Name: proto.String("s"), Number: proto.Int32(2), Label: opt, Type: descriptorpb.FieldDescriptorProto_TYPE_STRING.Enum(), JsonName: proto.String("s")},
				}},
				{Name: proto.String("R2"), Field: []*descriptorpb.FieldDescriptorProto{
					{Name: proto.String("in"), Number: proto.Int32(1), Label: req, Type: descriptorpb.FieldDescriptorProto_TYPE_MESSAGE.Enum(), TypeName: proto.String(".verif.c18.Inner"), JsonName: proto.String("in")},
					{Name: proto.String("ins"), Number: proto.Int32(2), Label: rep, Type: descriptorpb.FieldDescriptorProto_TYPE_MESSAGE.Enum(), TypeName: proto.String(".verif.c18.Inner"), JsonName: proto.String("ins")},
					{Name: proto.String("v"), Number: proto.Int32(4), Label: req, Type: descriptorpb.FieldDescriptorProto_TYPE_INT32.Enum(), JsonName: proto.String("v")},
				}},
				// a chain that reaches the nesting limit: the lists hanging off its last
				// links cannot be filled any more and must end up empty, not holding
				// elements whose required field is unset
				{Name: proto.String("Chain"), Field: []*descriptorpb.FieldDescriptorProto{
					{Name: proto.String("next"), Number: proto.Int32(1), Label: opt, Type: descriptorpb.FieldDescriptorProto_TYPE_MESSAGE.Enum(), TypeName: proto.String(".verif.c18.Chain"), JsonName: proto.String("next")},
					{Name: proto.String("ins"), Number: proto.Int32(2), Label: rep, Type: descriptorpb.FieldDescriptorProto_TYPE_MESSAGE.Enum(), TypeName: proto.String(".verif.c18.Inner"), JsonName: proto.String("ins")},
				}},
			},
		}
		fd, err := protodesc.NewFile(fdp, nil)
		if err == nil {
			p2req.md = fd.Messages().ByName("R2")
			p2req.chain = fd.Messages().ByName("Chain")
		}
	})
	return p2req.md
}
