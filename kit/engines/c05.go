package engines

import (
	"bytes"
	"fmt"
	"sort"

	"google.golang.org/protobuf/proto"
	"google.golang.org/protobuf/reflect/protoreflect"
	"pgregory.net/rapid"

	"verif/kit/model"
)

func init() {
	register(&Engine{
		ID:   "C05",
		Desc: "deterministic encoding is a pure function of the message value",
		Rule: "per generated type that can hold a map at any depth: map-heavy value V (bursts of up to 12 entries per map, maps inside nested messages / list elements / map values / oneof members); five construction histories of V (struct filled by protoimpl; filled through the generated reflection in reverse key order with delete/re-insert churn; decoded from a non-deterministic encoding; nil containers replaced by empty ones; proto.Clone) x R repeated deterministic marshals each (Go re-randomises map iteration per range). Oracle: all outputs byte-identical and equal to the reference deterministic bytes. Non-trivial: a map with >= 2 entries; distinct by digest of (type, bytes).",
		Run:  runC05, Replay: func(ctx *Ctx, c *Case) error { return checkC05(ctx, c) },
		Assumptions: []string{"map iteration orders are sampled by repetition, not enumerated"},
	})
}

func runC05(ctx *Ctx) {
	n := ctx.N(500, 2000)
	for _, t := range ctx.types() {
		t := t
		if !model.ContainsMap(t.Desc) {
			continue
		}
		ctx.CheckRapid(string(t.Name), n, func(rt *rapid.T) *Case {
			cfg := ctx.streamCfg(rapid.IntRange(0, 4).Draw(rt, "unknown") == 0, true)
			cfg.MapBurst = 12
			cfg.MaxRecords = 10
			b := cfg.GenStream(rt, t.Desc, 0)
			if _, err := decodeD(t, b); err != nil {
				ctx.Label("discarded: reference decoder rejected generated stream")
				return nil
			}
			return &Case{Type: string(t.Name), Bytes: hexs(b), Args: map[string]string{"reps": fmt.Sprint(ctx.N(20, 50))}}
		}, func(c *Case) error { return checkC05(ctx, c) })
	}
}

// buildChurn fills a generated message through the generated reflection, with
// maps populated in reverse key order and every other entry deleted and
// inserted again (different bucket history, same value).
func buildChurn(dst, src protoreflect.Message) {
	dfs := dst.Descriptor().Fields()
	src.Range(func(sfd protoreflect.FieldDescriptor, v protoreflect.Value) bool {
		fd := dfs.ByNumber(sfd.Number())
		switch {
		case fd.IsList():
			sl := v.List()
			dl := dst.Mutable(fd).List()
			for i := 0; i < sl.Len(); i++ {
				if fd.Message() != nil {
					buildChurn(dl.AppendMutable().Message(), sl.Get(i).Message())
				} else {
					dl.Append(sl.Get(i))
				}
			}
		case fd.IsMap():
			type ent struct {
				k protoreflect.MapKey
				v protoreflect.Value
				s string
			}
			var ents []ent
			v.Map().Range(func(k protoreflect.MapKey, mv protoreflect.Value) bool {
				ents = append(ents, ent{k, mv, k.String()})
				return true
			})
			sort.Slice(ents, func(i, j int) bool { return ents[i].s > ents[j].s })
			dm := dst.Mutable(fd).Map()
			put := func(e ent) {
				if fd.MapValue().Message() != nil {
					buildChurn(dm.Mutable(e.k).Message(), e.v.Message())
				} else {
					dm.Set(e.k, e.v)
				}
			}
			for _, e := range ents {
				put(e)
			}
			for i, e := range ents {
				if i%2 == 0 {
					dm.Clear(e.k)
				}
			}
			for i, e := range ents {
				if i%2 == 0 {
					put(e)
				}
			}
		case fd.Message() != nil:
			buildChurn(dst.Mutable(fd).Message(), v.Message())
		default:
			dst.Set(fd, v)
		}
		return true
	})
	if u := src.GetUnknown(); len(u) > 0 {
		dst.SetUnknown(append(protoreflect.RawFields(nil), u...))
	}
}

// mapStats returns the largest map size and the deepest level holding a map
// with >= 2 entries (-1 if none).
func mapStats(m protoreflect.Message, depth int) (maxEntries, deepest int) {
	deepest = -1
	m.Range(func(fd protoreflect.FieldDescriptor, v protoreflect.Value) bool {
		sub := func(mm protoreflect.Message) {
			e, d := mapStats(mm, depth+1)
			if e > maxEntries {
				maxEntries = e
			}
			if d > deepest {
				deepest = d
			}
		}
		switch {
		case fd.IsMap():
			n := v.Map().Len()
			if n > maxEntries {
				maxEntries = n
			}
			if n >= 2 && depth > deepest {
				deepest = depth
			}
			if fd.MapValue().Message() != nil {
				v.Map().Range(func(_ protoreflect.MapKey, mv protoreflect.Value) bool { sub(mv.Message()); return true })
			}
		case fd.IsList() && fd.Message() != nil:
			for i := 0; i < v.List().Len(); i++ {
				sub(v.List().Get(i).Message())
			}
		case fd.Message() != nil:
			sub(v.Message())
		}
		return true
	})
	return
}

func checkC05(ctx *Ctx, c *Case) error {
	t, err := mustType(c.Type)
	if err != nil {
		return err
	}
	d, err := decodeD(t, unhex(c.Bytes))
	if err != nil {
		return nil
	}
	want, err := det.Marshal(d)
	if err != nil {
		return fmt.Errorf("HARNESS: reference marshal failed: %v", err)
	}
	if sb := model.SpecEncode(d.ProtoReflect()); !bytes.Equal(sb, want) {
		ctx.Label("references disagree: dynamicpb vs spec encoder (not asserted)")
		return nil
	}
	reps := c.argInt("reps")
	if reps <= 0 {
		reps = 20
	}
	hist := map[string]proto.Message{}
	hist["struct-filled-by-protoimpl"] = model.BuildP(t, d.ProtoReflect())
	h2 := t.New()
	buildChurn(h2.ProtoReflect(), d.ProtoReflect())
	hist["generated-reflection-reverse-order-with-churn"] = h2
	nd, err := proto.Marshal(d) // map order random
	if err != nil {
		return fmt.Errorf("HARNESS: reference marshal failed: %v", err)
	}
	h3 := t.New()
	if err := proto.Unmarshal(nd, h3); err != nil {
		return fmt.Errorf("Unmarshal of reference encoding failed: %v", err)
	}
	hist["decoded-from-nondeterministic-bytes"] = h3
	h4 := model.BuildP(t, d.ProtoReflect())
	model.SetEmptyContainers(h4)
	hist["empty-non-nil-containers"] = h4
	h5 := model.BuildP(t, d.ProtoReflect())
	if model.FlipEmptyBytes(h5) > 0 {
		hist["empty-bytes-held-as-nil-or-as-empty-slice"] = h5
		ctx.Label("history with flipped empty bytes")
	}
	h6 := model.BuildP(t, d.ProtoReflect())
	if k := model.NilEmptyMessages(h6); k > 0 {
		hist["empty-message-elements-and-map-values-held-as-nil"] = h6
		ctx.Label("history with empty messages held as nil")
		if k >= 2 {
			ctx.Label("history with two or more nil message values")
		}
	}
	hist["clone"] = proto.Clone(hist["struct-filled-by-protoimpl"])
	names := make([]string, 0, len(hist))
	for k := range hist {
		names = append(names, k)
	}
	sort.Strings(names)
	for _, name := range names {
		h := hist[name]
		for r := 0; r < reps; r++ {
			got, err := det.Marshal(h)
			if err != nil {
				return fmt.Errorf("deterministic Marshal failed (%s): %v", name, err)
			}
			if !bytes.Equal(got, want) {
				return fmt.Errorf("deterministic bytes differ for history %q at repetition %d:\n got  %s\n want %s\n %s", name, r, trunc(hexs(got), 500), trunc(hexs(want), 500), diffStr(hexs(got), hexs(want)))
			}
			if sz := det.Size(h); sz != len(want) {
				return fmt.Errorf("deterministic Size=%d, encoding has %d bytes (%s)", sz, len(want), name)
			}
		}
	}
	maxE, deepest := mapStats(d.ProtoReflect(), 0)
	if maxE >= 2 {
		ctx.Nontrivial(c.Type, string(want))
		switch {
		case maxE >= 8:
			ctx.Label("max map size >= 8")
		case maxE >= 4:
			ctx.Label("max map size 4..7")
		default:
			ctx.Label("max map size 2..3")
		}
		ctx.Label(fmt.Sprintf("deepest map with >=2 entries at depth %d", deepest))
	} else {
		ctx.Label("trivial: no map with >= 2 entries")
	}
	return nil
}
