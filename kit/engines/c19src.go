package engines

import (
	"google.golang.org/protobuf/reflect/protoreflect"
)

// compareWithSource compares a checked-in package's registered descriptor with
// its .proto source (parsed by protoparse.go). Filled in by c19parse.go.
var compareWithSource = func(ctx *Ctx, reg protoreflect.FileDescriptor, tick func(string)) error { return nil }
