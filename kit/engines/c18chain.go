package engines

import (
	"bufio"
	"bytes"
	"encoding/json"
	"fmt"
	"os"
	"os/exec"
	"runtime/debug"
	"strconv"
	"strings"
	"time"

	"github.com/cosmos/cosmos-proto/rapidproto"
	"google.golang.org/protobuf/proto"
	"google.golang.org/protobuf/reflect/protoregistry"
	"google.golang.org/protobuf/types/dynamicpb"
	"google.golang.org/protobuf/types/known/anypb"
	"pgregory.net/rapid"

	"verif/kit/model"
)

// Arm "anychain" of C18: type URL lists under which an Any can directly hold
// another Any ("/google.protobuf.Any" alone, or beside Timestamp). The only
// thing that ends such a chain is the generator's nesting limit, so a
// generator that loses count does not terminate; a stack overflow cannot be
// recovered, hence a child process that announces every case first.

type chainCase struct {
	Type string `json:"type"`
	Mask int    `json:"mask"`
	URLs int    `json:"urls"`
	Seed int    `json:"seed"`
}

var chainURLSets = [][]string{
	{"/google.protobuf.Any"},
	{"/google.protobuf.Any", "/google.protobuf.Timestamp"},
	{"/google.protobuf.Timestamp", "/google.protobuf.Any", "/B"},
}

func chainTypes() []c18Type {
	out := []c18Type{{"google.protobuf.Any", func() proto.Message { return &anypb.Any{} }, nil}}
	if t := model.TypeByName("verif.wkt2.Holder"); t != nil {
		out = append(out, c18Type{string(t.Name), t.New, t.Desc})
		out = append(out, c18Type{"dynamic:verif.wkt2.Holder", func() proto.Message { return dynamicpb.NewMessage(t.Desc) }, t.Desc})
	}
	if t := model.TypeByName("verif.wkt.Singular"); t != nil {
		out = append(out, c18Type{"dynamic:verif.wkt.Singular", func() proto.Message { return dynamicpb.NewMessage(t.Desc) }, t.Desc})
	}
	return out
}

func chainOptions(cc chainCase) rapidproto.GeneratorOptions {
	o := c18Options(cc.Mask | 4)
	o.AnyTypeURLs = append([]string{}, chainURLSets[cc.URLs%len(chainURLSets)]...)
	o.Resolver = protoregistry.GlobalTypes
	return o
}

func runC18Chain(ctx *Ctx) {
	if ctx.Shard != 0 {
		return
	}
	var cases []chainCase
	per := ctx.N(6, 60)
	for _, ty := range chainTypes() {
		for _, mask := range []int{4, 5, 6, 7, 12} {
			for u := range chainURLSets {
				for k := 0; k < per; k++ {
					cases = append(cases, chainCase{Type: ty.name, Mask: mask, URLs: u, Seed: int(ctx.Seed)*1000 + k + 1})
				}
			}
		}
	}
	runChainChild(ctx, cases)
}

func chainReplayCase(cc chainCase) *Case {
	return &Case{Sub: "anychain", Type: cc.Type, Args: map[string]string{"opts": strconv.Itoa(cc.Mask), "urls": strconv.Itoa(cc.URLs), "example": strconv.Itoa(cc.Seed)}}
}

func runChainChild(ctx *Ctx, cases []chainCase) {
	in, _ := json.Marshal(cases)
	cmd := exec.Command(os.Args[0], "-test.run", "^TestVerif$", "-test.timeout", "900s")
	cmd.Env = append(os.Environ(), "VERIF_CHILD=c18chain", "VERIF_OUT=", "VERIF_REPLAY=")
	cmd.Stdin = bytes.NewReader(in)
	var out bytes.Buffer
	cmd.Stdout = &out
	cmd.Stderr = &out
	err := cmd.Run()
	sc := bufio.NewScanner(&out)
	sc.Buffer(make([]byte, 1<<20), 1<<20)
	current, finished := "", false
	for sc.Scan() {
		ln := sc.Text()
		switch {
		case strings.HasPrefix(ln, "CHAIN-BEGIN "):
			current = strings.TrimPrefix(ln, "CHAIN-BEGIN ")
		case strings.HasPrefix(ln, "CHAIN-OK "):
			ctx.Eval(1)
			f := strings.Fields(ln)
			ctx.Nontrivial("anychain", f[1], f[2])
			ctx.Label("anychain: deepest Any chain " + f[3])
			current = ""
		case strings.HasPrefix(ln, "CHAIN-BAD "):
			ctx.Eval(1)
			var cc chainCase
			parts := strings.SplitN(strings.TrimPrefix(ln, "CHAIN-BAD "), " :: ", 2)
			_ = json.Unmarshal([]byte(parts[0]), &cc)
			ctx.Violation(chainReplayCase(cc), parts[1])
			ctx.T.Fail()
			current = ""
		case ln == "CHAIN-DONE":
			finished = true
		}
	}
	if finished {
		return
	}
	var cc chainCase
	if current != "" && json.Unmarshal([]byte(current), &cc) == nil {
		ctx.Violation(chainReplayCase(cc), fmt.Sprintf("MessageGenerator(%s, opts=%d, AnyTypeURLs=%v) did not terminate: the child process died while drawing rapid example %d (err=%v): %s",
			cc.Type, cc.Mask|4, chainURLSets[cc.URLs%len(chainURLSets)], cc.Seed, err, trunc(firstLines(out.String(), "stack", 3), 500)))
		ctx.T.Fail()
		return
	}
	fmt.Printf("HARNESS-ERROR c18 chain child failed before announcing a case: %v\n%s\n", err, trunc(out.String(), 2000))
	ctx.T.Fail()
}

// firstLines returns the first n lines of s that mention word (the runtime's
// fatal error line), or the tail of s.
func firstLines(s, word string, n int) string {
	var got []string
	for _, ln := range strings.Split(s, "\n") {
		if strings.Contains(ln, word) || strings.Contains(ln, "fatal error") {
			got = append(got, strings.TrimSpace(ln))
			if len(got) == n {
				break
			}
		}
	}
	if len(got) == 0 {
		return tailStr(s, 400)
	}
	return strings.Join(got, " | ")
}

func chainChild() {
	var cases []chainCase
	if err := json.NewDecoder(os.Stdin).Decode(&cases); err != nil {
		fmt.Println("HARNESS-ERROR c18 chain child: bad input", err)
		return
	}
	debug.SetMaxStack(128 << 20) // die early instead of filling a gigabyte
	for _, cc := range cases {
		js, _ := json.Marshal(cc)
		fmt.Printf("CHAIN-BEGIN %s\n", js)
		depth, err := checkChain(cc)
		if err != nil {
			fmt.Printf("CHAIN-BAD %s :: %s\n", js, strings.ReplaceAll(err.Error(), "\n", " | "))
		} else {
			fmt.Printf("CHAIN-OK %s %s %d\n", strings.ReplaceAll(string(js), " ", ""), cc.Type, depth)
		}
	}
	fmt.Println("CHAIN-DONE")
}

func checkChain(cc chainCase) (int, error) {
	var ty *c18Type
	for _, t := range chainTypes() {
		if t.name == cc.Type {
			t := t
			ty = &t
		}
	}
	if ty == nil {
		return 0, fmt.Errorf("HARNESS: type %s not available", cc.Type)
	}
	opts := chainOptions(cc)
	mask := cc.Mask | 4
	type res struct {
		m   proto.Message
		err error
	}
	ch := make(chan res, 1)
	go func() {
		var r res
		defer func() {
			if p := recover(); p != nil {
				r.err = fmt.Errorf("MessageGenerator(%s, opts=%d, AnyTypeURLs=%v) panicked on rapid example %d: %v", cc.Type, mask, opts.AnyTypeURLs, cc.Seed, p)
			}
			ch <- r
		}()
		r.m = rapid.Custom(func(t *rapid.T) proto.Message {
			return rapidproto.MessageGenerator[proto.Message](ty.new(), opts).Draw(t, "msg")
		}).Example(cc.Seed)
	}()
	var r res
	select {
	case r = <-ch:
	case <-time.After(240 * time.Second):
		// not a verdict by itself: report as a death so the parent names the case
		fmt.Printf("generator still running after 240 s\n")
		os.Exit(3)
	}
	if r.err != nil {
		return 0, r.err
	}
	if err := c18Walk(r.m.ProtoReflect(), opts, mask, 0, string(r.m.ProtoReflect().Descriptor().Name())); err != nil {
		return 0, err
	}
	b, err := det.Marshal(r.m)
	if err != nil {
		return 0, fmt.Errorf("drawn message does not marshal: %v", err)
	}
	d := dynamicpb.NewMessage(r.m.ProtoReflect().Descriptor())
	if err := proto.Unmarshal(b, d); err != nil {
		return 0, fmt.Errorf("reference decoder rejects the drawn message's encoding: %v", err)
	}
	return anyDepth(r.m, 0), nil
}

// anyDepth is the longest chain of Any-in-Any in m (for the labels).
func anyDepth(m proto.Message, d int) int {
	a, ok := m.(*anypb.Any)
	if !ok || a.GetTypeUrl() != "/google.protobuf.Any" || d > 64 {
		if ok && a.GetTypeUrl() != "" {
			return d + 1
		}
		return d
	}
	inner := &anypb.Any{}
	if proto.Unmarshal(a.GetValue(), inner) != nil {
		return d + 1
	}
	return anyDepth(inner, d+1)
}

// replayChain re-runs one saved case in a child process.
func replayChain(c *Case) error {
	cc := chainCase{Type: c.Type, Mask: c.argInt("opts"), URLs: c.argInt("urls"), Seed: c.argInt("example")}
	in, _ := json.Marshal([]chainCase{cc})
	cmd := exec.Command(os.Args[0], "-test.run", "^TestVerif$", "-test.timeout", "900s")
	cmd.Env = append(os.Environ(), "VERIF_CHILD=c18chain", "VERIF_OUT=", "VERIF_REPLAY=", "VERIF_PROP=C18")
	cmd.Stdin = bytes.NewReader(in)
	var out bytes.Buffer
	cmd.Stdout = &out
	cmd.Stderr = &out
	err := cmd.Run()
	for _, ln := range strings.Split(out.String(), "\n") {
		if strings.HasPrefix(ln, "CHAIN-BAD ") {
			parts := strings.SplitN(ln, " :: ", 2)
			return fmt.Errorf("%s", parts[len(parts)-1])
		}
		if strings.HasPrefix(ln, "CHAIN-OK ") {
			return nil
		}
	}
	return fmt.Errorf("MessageGenerator(%s, opts=%d, AnyTypeURLs=%v) did not terminate: the child process died while drawing rapid example %d (err=%v): %s",
		cc.Type, cc.Mask|4, chainURLSets[cc.URLs%len(chainURLSets)], cc.Seed, err, trunc(firstLines(out.String(), "stack", 3), 500))
}
