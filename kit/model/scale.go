package model

import (
	"fmt"

	"google.golang.org/protobuf/encoding/protowire"
	"google.golang.org/protobuf/reflect/protoreflect"
)

// ScaleStream is one deterministic, well-typed, LARGE encoding for a type.
type ScaleStream struct {
	Name  string
	Bytes []byte
}

// ScaleStreams builds values beyond the size thresholds small cases never
// reach: more than 2^16 list elements, packed runs longer than 2^14 bytes,
// more than 1024 map entries, strings and bytes above 64 KiB and 2^21 bytes,
// an unknown-field set above 64 KiB, every field populated at once, and a
// nesting depth of 150. Which of them exist depends on the fields md has.
func ScaleStreams(md protoreflect.MessageDescriptor) []ScaleStream {
	var out []ScaleStream
	fds := md.Fields()
	scalar := func(fd protoreflect.FieldDescriptor, i int) []byte {
		switch fd.Kind() {
		case protoreflect.BoolKind:
			return protowire.AppendVarint(nil, uint64(i&1))
		case protoreflect.EnumKind:
			vals := fd.Enum().Values()
			return protowire.AppendVarint(nil, uint64(int64(vals.Get(i%vals.Len()).Number())))
		case protoreflect.Int32Kind:
			return protowire.AppendVarint(nil, uint64(int64(int32(i*2654435761))))
		case protoreflect.Int64Kind, protoreflect.Uint64Kind:
			return protowire.AppendVarint(nil, uint64(i)*0x9e3779b97f4a7c15)
		case protoreflect.Uint32Kind:
			return protowire.AppendVarint(nil, uint64(uint32(i*2654435761)))
		case protoreflect.Sint32Kind:
			return protowire.AppendVarint(nil, protowire.EncodeZigZag(int64(int32(i*2654435761))))
		case protoreflect.Sint64Kind:
			return protowire.AppendVarint(nil, protowire.EncodeZigZag(int64(uint64(i)*0x9e3779b97f4a7c15)))
		case protoreflect.Fixed32Kind, protoreflect.Sfixed32Kind, protoreflect.FloatKind:
			return protowire.AppendFixed32(nil, uint32(i)*2654435761&0x7f7fffff)
		case protoreflect.Fixed64Kind, protoreflect.Sfixed64Kind, protoreflect.DoubleKind:
			return protowire.AppendFixed64(nil, uint64(i)*0x9e3779b97f4a7c15&0x7fefffffffffffff)
		case protoreflect.StringKind:
			return protowire.AppendString(nil, fmt.Sprint("s", i))
		case protoreflect.BytesKind:
			return protowire.AppendBytes(nil, []byte{byte(i), byte(i >> 8)})
		}
		return nil
	}
	wt := func(fd protoreflect.FieldDescriptor) protowire.Type {
		switch fd.Kind() {
		case protoreflect.Fixed32Kind, protoreflect.Sfixed32Kind, protoreflect.FloatKind:
			return protowire.Fixed32Type
		case protoreflect.Fixed64Kind, protoreflect.Sfixed64Kind, protoreflect.DoubleKind:
			return protowire.Fixed64Type
		case protoreflect.StringKind, protoreflect.BytesKind, protoreflect.MessageKind:
			return protowire.BytesType
		}
		return protowire.VarintType
	}
	first := func(pred func(protoreflect.FieldDescriptor) bool) protoreflect.FieldDescriptor {
		for i := 0; i < fds.Len(); i++ {
			if fd := fds.Get(i); pred(fd) {
				return fd
			}
		}
		return nil
	}
	packable := func(fd protoreflect.FieldDescriptor) bool {
		return fd.IsList() && fd.Message() == nil && fd.Kind() != protoreflect.StringKind && fd.Kind() != protoreflect.BytesKind
	}
	if fd := first(packable); fd != nil {
		// one packed run of 70 000 elements (> 2^16 elements, > 2^14 bytes)
		var run []byte
		for i := 0; i < 70000; i++ {
			run = append(run, scalar(fd, i)...)
		}
		out = append(out, ScaleStream{"packed run of 70000 " + fd.Kind().String(), protowire.AppendBytes(protowire.AppendTag(nil, fd.Number(), protowire.BytesType), run)})
		// a short run first: the long run then lands in a list that already holds elements
		short := append(append(scalar(fd, 70001), scalar(fd, 70002)...), scalar(fd, 70003)...)
		out = append(out, ScaleStream{"short run, then a packed run of 70000 " + fd.Kind().String(),
			protowire.AppendBytes(protowire.AppendTag(protowire.AppendBytes(protowire.AppendTag(nil, fd.Number(), protowire.BytesType), short), fd.Number(), protowire.BytesType), run)})
		// the same list unpacked, interleaved with short packed runs
		var b []byte
		for i := 0; i < 20000; i++ {
			if i%7 == 0 {
				b = protowire.AppendBytes(protowire.AppendTag(b, fd.Number(), protowire.BytesType), append(scalar(fd, i), scalar(fd, i+1)...))
			} else {
				b = append(protowire.AppendTag(b, fd.Number(), wt(fd)), scalar(fd, i)...)
			}
		}
		out = append(out, ScaleStream{"20000 unpacked/packed chunks of " + fd.Kind().String(), b})
	}
	if fd := first(func(fd protoreflect.FieldDescriptor) bool {
		return fd.IsList() && (fd.Kind() == protoreflect.StringKind || fd.Kind() == protoreflect.BytesKind)
	}); fd != nil {
		var b []byte
		for i := 0; i < 70000; i++ {
			b = append(protowire.AppendTag(b, fd.Number(), protowire.BytesType), scalar(fd, i)...)
		}
		out = append(out, ScaleStream{"70000 elements of repeated " + fd.Kind().String(), b})
	}
	// every map with a scalar or message value: 1100 entries with distinct keys
	nmaps := 0
	for i := 0; i < fds.Len() && nmaps < 2; i++ {
		fd := fds.Get(i)
		if !fd.IsMap() || fd.MapKey().Kind() == protoreflect.BoolKind {
			continue
		}
		nmaps++
		var b []byte
		for k := 0; k < 1100; k++ {
			e := append(protowire.AppendTag(nil, 1, wt(fd.MapKey())), scalar(fd.MapKey(), k+1)...)
			if fd.MapKey().Kind() == protoreflect.StringKind {
				e = protowire.AppendString(protowire.AppendTag(nil, 1, protowire.BytesType), fmt.Sprint("key", k))
			}
			if fd.MapValue().Message() != nil {
				e = protowire.AppendBytes(protowire.AppendTag(e, 2, protowire.BytesType), nil)
			} else {
				e = append(protowire.AppendTag(e, 2, wt(fd.MapValue())), scalar(fd.MapValue(), k)...)
			}
			b = protowire.AppendBytes(protowire.AppendTag(b, fd.Number(), protowire.BytesType), e)
		}
		out = append(out, ScaleStream{fmt.Sprintf("map %s with 1100 entries", fd.Name()), b})
	}
	if fd := first(func(fd protoreflect.FieldDescriptor) bool {
		return !fd.IsList() && !fd.IsMap() && (fd.Kind() == protoreflect.StringKind || fd.Kind() == protoreflect.BytesKind)
	}); fd != nil {
		for _, n := range []int{70000, 1<<21 + 3} {
			v := make([]byte, n)
			for i := range v {
				v[i] = 'a' + byte(i%23)
			}
			out = append(out, ScaleStream{fmt.Sprintf("%s of %d bytes", fd.Kind(), n), protowire.AppendBytes(protowire.AppendTag(nil, fd.Number(), protowire.BytesType), v)})
		}
	}
	// an unknown-field set above 64 KiB (numbers no generated schema declares)
	{
		var b []byte
		for i := 0; len(b) < 70000; i++ {
			num := protowire.Number(19000 + i%1000)
			switch i % 3 {
			case 0:
				b = protowire.AppendVarint(protowire.AppendTag(b, num, protowire.VarintType), uint64(i)*0x9e3779b97f4a7c15)
			case 1:
				b = protowire.AppendBytes(protowire.AppendTag(b, num, protowire.BytesType), []byte(fmt.Sprint("unknown", i)))
			default:
				b = protowire.AppendFixed64(protowire.AppendTag(b, num, protowire.Fixed64Type), uint64(i))
			}
		}
		out = append(out, ScaleStream{"unknown-field set of 70 KB", b})
	}
	// every non-oneof field populated at once (and the first member of each oneof)
	if fds.Len() > 16 {
		out = append(out, ScaleStream{fmt.Sprintf("all %d fields populated", fds.Len()), AllFieldsStream(md)})
	}
	return out
}

// AllFieldsStream is a well-typed encoding with every non-oneof field of md (and
// the first member of each oneof) populated with a non-default value; message
// fields and map message values are present but empty.
func AllFieldsStream(md protoreflect.MessageDescriptor) []byte {
	fds := md.Fields()
	val := func(fd protoreflect.FieldDescriptor, i int) ([]byte, protowire.Type) {
		switch fd.Kind() {
		case protoreflect.BoolKind:
			return protowire.AppendVarint(nil, 1), protowire.VarintType
		case protoreflect.EnumKind:
			vals := fd.Enum().Values()
			return protowire.AppendVarint(nil, uint64(int64(vals.Get(vals.Len()-1).Number()))), protowire.VarintType
		case protoreflect.Sint32Kind, protoreflect.Sint64Kind:
			return protowire.AppendVarint(nil, protowire.EncodeZigZag(int64(-i-1))), protowire.VarintType
		case protoreflect.Fixed32Kind, protoreflect.Sfixed32Kind, protoreflect.FloatKind:
			return protowire.AppendFixed32(nil, 0x3fc00000+uint32(i)), protowire.Fixed32Type
		case protoreflect.Fixed64Kind, protoreflect.Sfixed64Kind, protoreflect.DoubleKind:
			return protowire.AppendFixed64(nil, 0x3ff8000000000000+uint64(i)), protowire.Fixed64Type
		case protoreflect.StringKind:
			return protowire.AppendString(nil, fmt.Sprint("v", i)), protowire.BytesType
		case protoreflect.BytesKind:
			return protowire.AppendBytes(nil, []byte{byte(i + 1)}), protowire.BytesType
		case protoreflect.MessageKind, protoreflect.GroupKind:
			return protowire.AppendBytes(nil, nil), protowire.BytesType
		}
		return protowire.AppendVarint(nil, uint64(i+1)), protowire.VarintType
	}
	var b []byte
	seenOneof := map[protoreflect.Name]bool{}
	for i := 0; i < fds.Len(); i++ {
		fd := fds.Get(i)
		if od := fd.ContainingOneof(); od != nil {
			if seenOneof[od.Name()] {
				continue
			}
			seenOneof[od.Name()] = true
		}
		if fd.IsMap() {
			kv, kt := val(fd.MapKey(), i)
			vv, vt := val(fd.MapValue(), i)
			e := append(protowire.AppendTag(nil, 1, kt), kv...)
			e = append(protowire.AppendTag(e, 2, vt), vv...)
			b = protowire.AppendBytes(protowire.AppendTag(b, fd.Number(), protowire.BytesType), e)
			continue
		}
		v, t := val(fd, i)
		b = append(protowire.AppendTag(b, fd.Number(), t), v...)
	}
	return b
}
