package model

import (
	"fmt"
	"math"
	"reflect"
	"sort"
	"strings"

	"google.golang.org/protobuf/reflect/protoreflect"
)

// Snapshot renders the Go struct behind a generated message structurally:
// nil vs empty containers, slice data pointers / lengths / capacities, pointer
// identities, string contents, oneof wrapper types. The bookkeeping fields
// protobuf-go updates atomically by design (state, sizeCache) are skipped.
func Snapshot(p interface{}) string {
	var b strings.Builder
	snap(&b, reflect.ValueOf(p), 0)
	return b.String()
}

func snap(b *strings.Builder, v reflect.Value, depth int) {
	if depth > 64 {
		b.WriteString("<deep>")
		return
	}
	switch v.Kind() {
	case reflect.Ptr:
		if v.IsNil() {
			b.WriteString("nil")
			return
		}
		fmt.Fprintf(b, "&%x", v.Pointer())
		snap(b, v.Elem(), depth+1)
	case reflect.Interface:
		if v.IsNil() {
			b.WriteString("nil-iface")
			return
		}
		fmt.Fprintf(b, "(%s)", v.Elem().Type())
		snap(b, v.Elem(), depth+1)
	case reflect.Struct:
		t := v.Type()
		b.WriteString("{")
		for i := 0; i < t.NumField(); i++ {
			name := t.Field(i).Name
			if name == "state" || name == "sizeCache" || name == "atomicMessageInfo" || name == "DoNotCompare" || name == "DoNotCopy" {
				continue
			}
			b.WriteString(name)
			b.WriteString(":")
			snap(b, v.Field(i), depth+1)
			b.WriteString(";")
		}
		b.WriteString("}")
	case reflect.Slice:
		if v.IsNil() {
			b.WriteString("nil-slice")
			return
		}
		fmt.Fprintf(b, "[len=%d cap=%d @%x", v.Len(), v.Cap(), v.Pointer())
		if v.Type().Elem().Kind() == reflect.Uint8 {
			fmt.Fprintf(b, " %x", v.Bytes())
		} else {
			for i := 0; i < v.Len(); i++ {
				b.WriteString(" ")
				snap(b, v.Index(i), depth+1)
			}
		}
		b.WriteString("]")
	case reflect.Map:
		if v.IsNil() {
			b.WriteString("nil-map")
			return
		}
		type kv struct {
			k string
			v reflect.Value
		}
		var ents []kv
		it := v.MapRange()
		for it.Next() {
			var kb strings.Builder
			snap(&kb, it.Key(), depth+1)
			ents = append(ents, kv{kb.String(), it.Value()})
		}
		sort.Slice(ents, func(i, j int) bool { return ents[i].k < ents[j].k })
		fmt.Fprintf(b, "map[len=%d", len(ents))
		for _, e := range ents {
			b.WriteString(" ")
			b.WriteString(e.k)
			b.WriteString("=>")
			snap(b, e.v, depth+1)
		}
		b.WriteString("]")
	case reflect.String:
		fmt.Fprintf(b, "%q", v.String())
	case reflect.Bool:
		fmt.Fprintf(b, "%v", v.Bool())
	case reflect.Int, reflect.Int8, reflect.Int16, reflect.Int32, reflect.Int64:
		fmt.Fprintf(b, "%d", v.Int())
	case reflect.Uint, reflect.Uint8, reflect.Uint16, reflect.Uint32, reflect.Uint64, reflect.Uintptr:
		fmt.Fprintf(b, "u%d", v.Uint())
	case reflect.Float32:
		fmt.Fprintf(b, "f%08x", math.Float32bits(float32(v.Float())))
	case reflect.Float64:
		fmt.Fprintf(b, "d%016x", math.Float64bits(v.Float()))
	default:
		fmt.Fprintf(b, "<%s>", v.Kind())
	}
}

// ByteSlices returns every []byte reachable from the struct behind p
// (bytes fields in singular/repeated/map/oneof positions and unknownFields at
// any depth, including nested non-generated messages). The returned slices
// alias the message's memory.
func ByteSlices(p interface{}) [][]byte {
	var out [][]byte
	collectBytes(reflect.ValueOf(p), &out, 0)
	return out
}

func collectBytes(v reflect.Value, out *[][]byte, depth int) {
	if depth > 64 {
		return
	}
	switch v.Kind() {
	case reflect.Ptr, reflect.Interface:
		if !v.IsNil() {
			collectBytes(v.Elem(), out, depth+1)
		}
	case reflect.Struct:
		t := v.Type()
		for i := 0; i < t.NumField(); i++ {
			name := t.Field(i).Name
			if name == "state" || name == "sizeCache" || name == "atomicMessageInfo" {
				continue
			}
			collectBytes(v.Field(i), out, depth+1)
		}
	case reflect.Slice:
		if v.Type().Elem().Kind() == reflect.Uint8 {
			if v.Len() > 0 {
				*out = append(*out, v.Bytes())
			}
			return
		}
		for i := 0; i < v.Len(); i++ {
			collectBytes(v.Index(i), out, depth+1)
		}
	case reflect.Map:
		it := v.MapRange()
		for it.Next() {
			collectBytes(it.Value(), out, depth+1)
		}
	}
}

// HasPayload reports whether m holds a non-empty string, bytes or unknown
// payload at any depth.
func HasPayload(m protoreflect.Message) bool {
	if len(m.GetUnknown()) > 0 {
		return true
	}
	found := false
	m.Range(func(fd protoreflect.FieldDescriptor, v protoreflect.Value) bool {
		leaf := func(lfd protoreflect.FieldDescriptor, lv protoreflect.Value) {
			switch {
			case lfd.Message() != nil:
				if HasPayload(lv.Message()) {
					found = true
				}
			case lfd.Kind() == protoreflect.StringKind:
				found = found || len(lv.String()) > 0
			case lfd.Kind() == protoreflect.BytesKind:
				found = found || len(lv.Bytes()) > 0
			}
		}
		switch {
		case fd.IsList():
			for i := 0; i < v.List().Len(); i++ {
				leaf(fd, v.List().Get(i))
			}
		case fd.IsMap():
			v.Map().Range(func(k protoreflect.MapKey, mv protoreflect.Value) bool {
				leaf(fd.MapKey(), k.Value())
				leaf(fd.MapValue(), mv)
				return true
			})
		default:
			leaf(fd, v)
		}
		return !found
	})
	return found
}
