package model

import (
	"bytes"
	"math"
	"sort"

	"google.golang.org/protobuf/encoding/protowire"
	"google.golang.org/protobuf/reflect/protoreflect"
)

// SpecEncode is an independent deterministic encoder written from the wire
// format specification and the ordering rules stated in property C02: fields
// outside oneofs in ascending number order, then oneof members by oneof
// declaration order, then unknown fields; map entries sorted by key with key
// and value always present; repeated scalars packed unless declared unpacked;
// minimal varints; proto3 defaults omitted (presence = Has). It shares no code
// with proto.Marshal beyond protowire's primitive appenders.
func SpecEncode(m protoreflect.Message) []byte {
	return specMsg(nil, m)
}

func specMsg(b []byte, m protoreflect.Message) []byte {
	fds := m.Descriptor().Fields()
	var plain, inOneof []protoreflect.FieldDescriptor
	for i := 0; i < fds.Len(); i++ {
		fd := fds.Get(i)
		if !m.Has(fd) {
			continue
		}
		if od := fd.ContainingOneof(); od != nil && !od.IsSynthetic() {
			inOneof = append(inOneof, fd)
		} else {
			plain = append(plain, fd)
		}
	}
	sort.Slice(plain, func(i, j int) bool { return plain[i].Number() < plain[j].Number() })
	sort.Slice(inOneof, func(i, j int) bool {
		return inOneof[i].ContainingOneof().Index() < inOneof[j].ContainingOneof().Index()
	})
	for _, fd := range append(plain, inOneof...) {
		b = specField(b, fd, m.Get(fd))
	}
	return append(b, m.GetUnknown()...)
}

func specField(b []byte, fd protoreflect.FieldDescriptor, v protoreflect.Value) []byte {
	num := fd.Number()
	switch {
	case fd.IsList():
		l := v.List()
		if fd.IsPacked() {
			var body []byte
			for i := 0; i < l.Len(); i++ {
				body = specScalar(body, fd, l.Get(i))
			}
			b = protowire.AppendTag(b, num, protowire.BytesType)
			return protowire.AppendBytes(b, body)
		}
		for i := 0; i < l.Len(); i++ {
			b = specSingle(b, fd, l.Get(i))
		}
		return b
	case fd.IsMap():
		type ent struct {
			k protoreflect.MapKey
			v protoreflect.Value
		}
		var ents []ent
		v.Map().Range(func(k protoreflect.MapKey, mv protoreflect.Value) bool {
			ents = append(ents, ent{k, mv})
			return true
		})
		kfd, vfd := fd.MapKey(), fd.MapValue()
		sort.Slice(ents, func(i, j int) bool { return keyLess(kfd, ents[i].k, ents[j].k) })
		for _, e := range ents {
			var body []byte
			body = specSingle(body, kfd, e.k.Value())
			body = specSingle(body, vfd, e.v)
			b = protowire.AppendTag(b, num, protowire.BytesType)
			b = protowire.AppendBytes(b, body)
		}
		return b
	default:
		return specSingle(b, fd, v)
	}
}

func keyLess(kfd protoreflect.FieldDescriptor, a, b protoreflect.MapKey) bool {
	switch kfd.Kind() {
	case protoreflect.BoolKind:
		return !a.Bool() && b.Bool()
	case protoreflect.StringKind:
		return a.String() < b.String()
	case protoreflect.Int32Kind, protoreflect.Sint32Kind, protoreflect.Sfixed32Kind,
		protoreflect.Int64Kind, protoreflect.Sint64Kind, protoreflect.Sfixed64Kind:
		return a.Int() < b.Int()
	default:
		return a.Uint() < b.Uint()
	}
}

func wireTypeOf(k protoreflect.Kind) protowire.Type {
	switch k {
	case protoreflect.Fixed32Kind, protoreflect.Sfixed32Kind, protoreflect.FloatKind:
		return protowire.Fixed32Type
	case protoreflect.Fixed64Kind, protoreflect.Sfixed64Kind, protoreflect.DoubleKind:
		return protowire.Fixed64Type
	case protoreflect.StringKind, protoreflect.BytesKind, protoreflect.MessageKind:
		return protowire.BytesType
	case protoreflect.GroupKind:
		return protowire.StartGroupType
	}
	return protowire.VarintType
}

// WireTypeOf exposes the declared wire type of a kind.
func WireTypeOf(k protoreflect.Kind) protowire.Type { return wireTypeOf(k) }

func specSingle(b []byte, fd protoreflect.FieldDescriptor, v protoreflect.Value) []byte {
	b = protowire.AppendTag(b, fd.Number(), wireTypeOf(fd.Kind()))
	return specScalar(b, fd, v)
}

func specScalar(b []byte, fd protoreflect.FieldDescriptor, v protoreflect.Value) []byte {
	switch fd.Kind() {
	case protoreflect.BoolKind:
		if v.Bool() {
			return protowire.AppendVarint(b, 1)
		}
		return protowire.AppendVarint(b, 0)
	case protoreflect.EnumKind:
		return protowire.AppendVarint(b, uint64(int64(v.Enum())))
	case protoreflect.Int32Kind, protoreflect.Int64Kind:
		return protowire.AppendVarint(b, uint64(v.Int()))
	case protoreflect.Sint32Kind, protoreflect.Sint64Kind:
		return protowire.AppendVarint(b, protowire.EncodeZigZag(v.Int()))
	case protoreflect.Uint32Kind, protoreflect.Uint64Kind:
		return protowire.AppendVarint(b, v.Uint())
	case protoreflect.Sfixed32Kind:
		return protowire.AppendFixed32(b, uint32(v.Int()))
	case protoreflect.Fixed32Kind:
		return protowire.AppendFixed32(b, uint32(v.Uint()))
	case protoreflect.FloatKind:
		return protowire.AppendFixed32(b, math.Float32bits(float32(v.Float())))
	case protoreflect.Sfixed64Kind:
		return protowire.AppendFixed64(b, uint64(v.Int()))
	case protoreflect.Fixed64Kind:
		return protowire.AppendFixed64(b, v.Uint())
	case protoreflect.DoubleKind:
		return protowire.AppendFixed64(b, math.Float64bits(v.Float()))
	case protoreflect.StringKind:
		return protowire.AppendString(b, v.String())
	case protoreflect.BytesKind:
		return protowire.AppendBytes(b, v.Bytes())
	case protoreflect.MessageKind:
		return protowire.AppendBytes(b, specMsg(nil, v.Message()))
	}
	panic("spec: unsupported kind " + fd.Kind().String())
}

// Record is one top-level wire record.
type Record struct {
	Num  protowire.Number
	Typ  protowire.Type
	Raw  []byte // whole record including tag
	Body []byte // value bytes (payload of a length-delimited record)
}

// SplitRecords parses b into top-level records; ok is false if b is not a
// well-formed record sequence.
func SplitRecords(b []byte) (recs []Record, ok bool) {
	for len(b) > 0 {
		num, typ, n := protowire.ConsumeTag(b)
		if n < 0 {
			return recs, false
		}
		m := protowire.ConsumeFieldValue(num, typ, b[n:])
		if m < 0 {
			return recs, false
		}
		r := Record{Num: num, Typ: typ, Raw: b[:n+m]}
		if typ == protowire.BytesType {
			body, _ := protowire.ConsumeBytes(b[n:])
			r.Body = body
		} else {
			r.Body = b[n : n+m]
		}
		recs = append(recs, r)
		b = b[n+m:]
	}
	return recs, true
}

// EqualBytes is bytes.Equal treating nil and empty alike.
func EqualBytes(a, b []byte) bool { return bytes.Equal(a, b) }

// SpecScalar returns the canonical wire payload (no tag) of one scalar value.
func SpecScalar(fd protoreflect.FieldDescriptor, v protoreflect.Value) []byte {
	return specScalar(nil, fd, v)
}
