package model

import (
	"google.golang.org/protobuf/proto"
	"google.golang.org/protobuf/reflect/protoreflect"
)

// CopyInto writes the value of src into the (empty) message dst. dst and every
// nested destination message are written through view(dst...), so with Impl
// the generated struct is filled without running generated reflection code,
// and with Same it is filled through the reflection under test.
// Fields are matched by number, so src and dst may be different
// implementations of the same message type.
func CopyInto(dst, src protoreflect.Message, view Viewer) {
	dst = view(dst)
	dfs := dst.Descriptor().Fields()
	src.Range(func(sfd protoreflect.FieldDescriptor, v protoreflect.Value) bool {
		fd := dfs.ByNumber(sfd.Number())
		switch {
		case fd.IsList():
			sl := v.List()
			dl := dst.Mutable(fd).List()
			for i := 0; i < sl.Len(); i++ {
				if fd.Message() != nil {
					CopyInto(dl.AppendMutable().Message(), sl.Get(i).Message(), view)
				} else {
					dl.Append(cloneScalar(fd, sl.Get(i)))
				}
			}
		case fd.IsMap():
			dm := dst.Mutable(fd).Map()
			v.Map().Range(func(k protoreflect.MapKey, mv protoreflect.Value) bool {
				if fd.MapValue().Message() != nil {
					CopyInto(dm.Mutable(k).Message(), mv.Message(), view)
				} else {
					dm.Set(k, cloneScalar(fd.MapValue(), mv))
				}
				return true
			})
		case fd.Message() != nil:
			CopyInto(dst.Mutable(fd).Message(), v.Message(), view)
		default:
			dst.Set(fd, cloneScalar(fd, v))
		}
		return true
	})
	if u := src.GetUnknown(); len(u) > 0 {
		dst.SetUnknown(append(protoreflect.RawFields(nil), u...))
	}
}

func cloneScalar(fd protoreflect.FieldDescriptor, v protoreflect.Value) protoreflect.Value {
	if fd.Kind() == protoreflect.BytesKind {
		return protoreflect.ValueOfBytes(append([]byte{}, v.Bytes()...))
	}
	return v
}

// BuildP constructs a generated message holding the value of src, writing the
// Go struct through protobuf-go's own reflection (Impl view).
func BuildP(t *Type, src protoreflect.Message) proto.Message {
	p := t.New()
	CopyInto(p.ProtoReflect(), src, Impl)
	return p
}

// BuildPViaPulsar constructs the same value through the reflection under test.
func BuildPViaPulsar(t *Type, src protoreflect.Message) proto.Message {
	p := t.New()
	CopyInto(p.ProtoReflect(), src, Same)
	return p
}
