package model

import (
	"math"
	"strings"

	"google.golang.org/protobuf/encoding/protowire"
	"google.golang.org/protobuf/reflect/protoreflect"
	"pgregory.net/rapid"
)

// StreamCfg controls the well-typed wire-stream generator.
type StreamCfg struct {
	MaxRecords int  // records per message node (upper bound of the draw)
	MaxDepth   int  // nesting depth of generated message payloads
	Unknown    bool // interleave unknown records (all wire types, groups)
	Canonical  bool // no duplication of singular fields / no padding: "plain" values
	MapBurst   int  // >0: prefer map-bearing fields and emit up to MapBurst entries per pick
	keyCluster uint64 // != 0: base of the 64-bit map keys of the current burst
	// StrCluster != "": string map keys are this prefix plus one rune from
	// orderRunes, so that the keys of one map differ first in a place where
	// UTF-8 byte order, UTF-16 code-unit order and collation orders disagree
	StrCluster string
	ListBurst  int  // >0: a picked repeated field is emitted up to ListBurst times in a row (many chunks, long lists)
	// Avoid holds known-finding classes the generator must steer away from
	// (see known_findings.json). Each avoided draw is counted in Excluded.
	Avoid    map[string]bool
	Excluded map[string]int
	Labels   map[string]int // feature histogram, filled while generating
}

func (c *StreamCfg) label(s string) {
	if c.Labels != nil {
		c.Labels[s]++
	}
}

func (c *StreamCfg) excluded(s string) {
	if c.Excluded != nil {
		c.Excluded[s]++
	}
}

var uBoundaries = func() []uint64 {
	out := []uint64{0, 1, 2}
	for k := uint(7); k < 64; k += 7 {
		out = append(out, 1<<k-1, 1<<k, 1<<k+1)
	}
	out = append(out, 1<<31-1, 1<<31, 1<<32-1, 1<<32, 1<<63-1, 1<<63, math.MaxUint64, math.MaxUint64-1)
	return out
}()

var genU64 = rapid.OneOf(rapid.SampledFrom(uBoundaries), rapid.Uint64(), rapid.Uint64Range(0, 300))

var f64Specials = []uint64{
	0, 0x8000000000000000, // +0, -0
	0x7ff0000000000000, 0xfff0000000000000, // +-Inf
	0x7ff8000000000000, 0x7ff8000000000001, 0xfff8000000000000, 0x7ff0000000000001, 0x7fffffffffffffff, // NaNs (quiet, payload, negative, signalling)
	1, 0x000fffffffffffff, 0x0010000000000000, // denormals, smallest normal
	0x3ff0000000000000, 0xbff0000000000000, 0x7fefffffffffffff,
}

// float32 NaNs are restricted to quiet ones (bit 22 set): protoreflect's
// ValueOfFloat32 goes through float64, which quiets signalling NaNs, so no
// reference can carry them.
var f32Specials = []uint32{
	0, 0x80000000, 0x7f800000, 0xff800000,
	0x7fc00000, 0x7fc00001, 0xffc00000, 0x7fffffff, 0xffc12345,
	1, 0x007fffff, 0x00800000, 0x3f800000, 0xbf800000, 0x7f7fffff,
}

func genF64Bits(t *rapid.T) uint64 {
	if rapid.IntRange(0, 2).Draw(t, "f64class") == 0 {
		return rapid.SampledFrom(f64Specials).Draw(t, "f64s")
	}
	return rapid.Uint64().Draw(t, "f64")
}

func genF32Bits(t *rapid.T) uint32 {
	if rapid.IntRange(0, 2).Draw(t, "f32class") == 0 {
		return rapid.SampledFrom(f32Specials).Draw(t, "f32s")
	}
	v := rapid.Uint32().Draw(t, "f32")
	if v&0x7f800000 == 0x7f800000 && v&0x007fffff != 0 {
		v |= 0x00400000 // quiet the NaN
	}
	return v
}

var genStr = rapid.OneOf(
	rapid.SampledFrom([]string{"", "a", "\x00", "héllo", "日本語", "\u0000x\u007f", "😀"}),
	rapid.StringN(0, 12, 40),
	rapid.StringN(0, 12, 40),
	rapid.StringOfN(rapid.RuneFrom([]rune("abé世")), 120, 140, -1),
	rapid.Custom(func(t *rapid.T) string {
		n := boundaryLen.Draw(t, "slen")
		b := make([]byte, n)
		c := rapid.SampledFrom([]byte("axyz0")).Draw(t, "fillc")
		for i := range b {
			b[i] = c
		}
		return string(b)
	}),
)

// orderRunes end clustered string keys: runes whose relative order differs
// between bytewise UTF-8 (the reference's), UTF-16 code units (astral runes sort
// below U+E000..U+FFFF there), case-folded and locale orders.
var orderRunes = []string{"", "a", "B", "b", "Z", "~", "\x7f", "\u0080", "é", "É", "\u07ff", "\u0800", "\ud7ff", "\ue000", "\uff5e", "\ufffd", "\uffff", "\U00010000", "\U0001F600", "\U0010FFFF", "a\x00", "aa"}

// lengths at the 1->2 and 2->3 byte boundaries of the length varint
var boundaryLen = rapid.Custom(func(t *rapid.T) int {
	// a window around each boundary: the enclosing record's own length then
	// crosses it for every overhead (tag width, inner length prefix) of 0..9 bytes
	if rapid.IntRange(0, 60).Draw(t, "hugelen") == 0 {
		return rapid.IntRange(16374, 16386).Draw(t, "len3")
	}
	return rapid.IntRange(117, 130).Draw(t, "len2")
})

var genBytes = rapid.OneOf(
	rapid.SampledFrom([][]byte{{}, {0}, {0xff}, {0x80, 0x80, 0x80}}),
	rapid.SliceOfN(rapid.Byte(), 0, 12),
	rapid.SliceOfN(rapid.Byte(), 0, 12),
	rapid.Custom(func(t *rapid.T) []byte {
		n := boundaryLen.Draw(t, "blen")
		b := make([]byte, n)
		seed := rapid.Byte().Draw(t, "fill")
		for i := range b {
			b[i] = seed + byte(i*7)
		}
		return b
	}),
)

// appendVarintPadded appends v using exactly n bytes when n is a valid
// (possibly non-minimal) length for v, else minimally.
func appendVarintPadded(b []byte, v uint64, n int) []byte {
	min := protowire.SizeVarint(v)
	if n <= min || n > 10 {
		return protowire.AppendVarint(b, v)
	}
	for i := 0; i < n-1; i++ {
		b = append(b, byte(v&0x7f)|0x80)
		v >>= 7
	}
	return append(b, byte(v))
}

func (c *StreamCfg) varint(t *rapid.T, b []byte, v uint64) []byte {
	if !c.Canonical && rapid.IntRange(0, 7).Draw(t, "pad") == 0 {
		n := rapid.IntRange(1, 10).Draw(t, "padlen")
		if n > protowire.SizeVarint(v) {
			c.label("padded-varint")
		}
		return appendVarintPadded(b, v, n)
	}
	return protowire.AppendVarint(b, v)
}

func (c *StreamCfg) tag(t *rapid.T, b []byte, num protowire.Number, typ protowire.Type) []byte {
	v := protowire.EncodeTag(num, typ)
	if !c.Canonical && rapid.IntRange(0, 30).Draw(t, "padtag") == 0 {
		c.label("padded-tag")
		return appendVarintPadded(b, v, protowire.SizeVarint(v)+rapid.IntRange(1, 2).Draw(t, "padtaglen"))
	}
	return protowire.AppendVarint(b, v)
}

func (c *StreamCfg) lenPrefixed(t *rapid.T, b []byte, body []byte) []byte {
	b = c.varint(t, b, uint64(len(body)))
	return append(b, body...)
}

// scalarPayload appends the value bytes (no tag) of one scalar of kind k.
func (c *StreamCfg) scalarPayload(t *rapid.T, b []byte, fd protoreflect.FieldDescriptor) []byte {
	switch fd.Kind() {
	case protoreflect.BoolKind:
		switch rapid.IntRange(0, 5).Draw(t, "boolv") {
		case 0, 1:
			return c.varint(t, b, 0)
		case 2, 3:
			return c.varint(t, b, 1)
		default:
			if c.Canonical {
				return c.varint(t, b, 1)
			}
			c.label("bool-varint>1")
			return c.varint(t, b, genU64.Draw(t, "boolbig")|2)
		}
	case protoreflect.EnumKind:
		vals := fd.Enum().Values()
		switch rapid.IntRange(0, 3).Draw(t, "enumclass") {
		case 0, 1:
			n := vals.Get(rapid.IntRange(0, vals.Len()-1).Draw(t, "enumidx")).Number()
			return c.varint(t, b, uint64(int64(n)))
		default:
			c.label("enum-undeclared-or-raw")
			return c.int32Varint(t, b)
		}
	case protoreflect.Int32Kind:
		return c.int32Varint(t, b)
	case protoreflect.Uint32Kind:
		v := genU64.Draw(t, "u32")
		if c.Canonical || rapid.IntRange(0, 3).Draw(t, "u32trunc") != 0 {
			v = uint64(uint32(v))
		} else {
			c.label("u32-overlong")
		}
		return c.varint(t, b, v)
	case protoreflect.Sint32Kind:
		v := genU64.Draw(t, "s32")
		if c.Canonical || rapid.IntRange(0, 3).Draw(t, "s32trunc") != 0 {
			v = uint64(uint32(v))
		} else {
			c.label("s32-overlong")
		}
		return c.varint(t, b, v)
	case protoreflect.Int64Kind, protoreflect.Uint64Kind, protoreflect.Sint64Kind:
		return c.varint(t, b, genU64.Draw(t, "v64"))
	case protoreflect.Fixed32Kind, protoreflect.Sfixed32Kind:
		return protowire.AppendFixed32(b, uint32(genU64.Draw(t, "fx32")))
	case protoreflect.FloatKind:
		return protowire.AppendFixed32(b, genF32Bits(t))
	case protoreflect.Fixed64Kind, protoreflect.Sfixed64Kind:
		return protowire.AppendFixed64(b, genU64.Draw(t, "fx64"))
	case protoreflect.DoubleKind:
		return protowire.AppendFixed64(b, genF64Bits(t))
	case protoreflect.StringKind:
		return c.lenPrefixed(t, b, []byte(genStr.Draw(t, "str")))
	case protoreflect.BytesKind:
		return c.lenPrefixed(t, b, genBytes.Draw(t, "bytes"))
	}
	panic("scalarPayload: " + fd.Kind().String())
}

func (c *StreamCfg) int32Varint(t *rapid.T, b []byte) []byte {
	v := genU64.Draw(t, "i32")
	switch rapid.IntRange(0, 5).Draw(t, "i32form") {
	case 0, 1, 2: // canonical: sign-extended to 64 bits (10 bytes when negative)
		return c.varint(t, b, uint64(int64(int32(v))))
	case 3:
		if c.Canonical {
			return c.varint(t, b, uint64(int64(int32(v))))
		}
		c.label("int32-5byte-negative")
		return c.varint(t, b, uint64(uint32(v))) // 32-bit pattern, not sign-extended
	default:
		if c.Canonical {
			return c.varint(t, b, uint64(int64(int32(v))))
		}
		c.label("int32-overlong")
		return c.varint(t, b, v) // arbitrary 64-bit varint, decoders truncate
	}
}

// GenStream draws a well-typed wire encoding for md: records of known fields
// with their declared wire type (packed or unpacked for repeated scalars), in
// any order and multiplicity, optionally interleaved with unknown records.
func (c *StreamCfg) GenStream(t *rapid.T, md protoreflect.MessageDescriptor, depth int) []byte {
	var b []byte
	fds := md.Fields()
	max := c.MaxRecords
	if depth > 0 && max > 6 {
		max = 6
	}
	n := rapid.IntRange(0, max).Draw(t, "nrec")
	if fds.Len() == 0 && !c.Unknown {
		return nil
	}
	seenMsg := map[protoreflect.FieldNumber]bool{}
	seenSingular := map[protoreflect.FieldNumber]bool{}
	for i := 0; i < n; i++ {
		if fds.Len() == 0 || (c.Unknown && rapid.IntRange(0, 5).Draw(t, "unk") == 0) {
			if c.Unknown {
				b = c.unknownRecord(t, b, md, 0)
			}
			continue
		}
		fd := fds.Get(rapid.IntRange(0, fds.Len()-1).Draw(t, "field"))
		if c.MapBurst > 0 {
			if mf := mapish(md); len(mf) > 0 && rapid.IntRange(0, 2).Draw(t, "mapbias") != 0 {
				fd = mf[rapid.IntRange(0, len(mf)-1).Draw(t, "mapfield")]
			}
		}
		num := fd.Number()
		if c.ListBurst > 0 && fd.IsList() && rapid.IntRange(0, 1).Draw(t, "listburst") == 0 {
			// the same repeated field again and again: extra iterations of this loop pick it
			k := rapid.IntRange(2, c.ListBurst).Draw(t, "burstlen")
			c.label("repeated-field-burst")
			for e := 0; e < k; e++ {
				b = c.oneListRecord(t, b, fd, depth)
			}
			continue
		}
		switch {
		case fd.IsMap():
			if depth >= c.MaxDepth && fd.MapValue().Message() != nil {
				continue
			}
			burst := 1
			if c.MapBurst > 0 {
				burst = rapid.IntRange(1, c.MapBurst).Draw(t, "burst")
			}
			c.keyCluster = 0
			if burst > 1 && rapid.IntRange(0, 3).Draw(t, "cluster") == 0 {
				c.keyCluster = rapid.SampledFrom([]uint64{1 << 62, 1<<63 - 16, 1<<64 - 32, 1<<53 + 1, 3 << 61}).Draw(t, "clusterbase")
				c.label("map keys clustered above 2^53")
			}
			for e := 0; e < burst; e++ {
				c.label("map")
				body := c.mapEntry(t, fd, depth)
				b = c.tag(t, b, num, protowire.BytesType)
				b = c.lenPrefixed(t, b, body)
			}
		case fd.IsList() && fd.Message() == nil && fd.Kind() != protoreflect.StringKind && fd.Kind() != protoreflect.BytesKind:
			// repeated scalar: packed run or single unpacked element, whatever
			// the declaration says
			if rapid.Bool().Draw(t, "packed") {
				cnt := rapid.IntRange(0, 5).Draw(t, "runlen")
				if !c.Canonical && rapid.IntRange(0, 40).Draw(t, "bigrun") == 0 {
					cnt = rapid.SampledFrom([]int{15, 16, 17, 31, 32, 33, 63, 64, 127, 128, 129, 140}).Draw(t, "bigrunlen")
					c.label("packed-run-boundary-length(15..140)")
				}
				if cnt == 0 {
					c.label("packed-run-empty")
				}
				var body []byte
				for j := 0; j < cnt; j++ {
					body = c.scalarPayload(t, body, fd)
				}
				if fd.IsPacked() {
					c.label("packed-as-declared")
				} else {
					c.label("packed-though-declared-unpacked")
				}
				b = c.tag(t, b, num, protowire.BytesType)
				b = c.lenPrefixed(t, b, body)
			} else {
				if fd.IsPacked() {
					c.label("unpacked-though-declared-packed")
				} else {
					c.label("unpacked-as-declared")
				}
				b = c.tag(t, b, num, wireTypeOf(fd.Kind()))
				b = c.scalarPayload(t, b, fd)
			}
		case fd.Message() != nil:
			if depth >= c.MaxDepth {
				continue
			}
			if !fd.IsList() {
				if seenMsg[num] {
					if c.Canonical {
						continue
					}
					inOneof := fd.ContainingOneof() != nil
					if (inOneof && c.Avoid["merge_oneof_msg"]) || (!inOneof && c.Avoid["merge_singular_msg"]) {
						c.excluded("repeated occurrence of singular/oneof message field")
						continue
					}
					c.label("message-field-repeated(merge)")
				}
				seenMsg[num] = true
			}
			body := c.GenStream(t, fd.Message(), depth+1)
			b = c.tag(t, b, num, protowire.BytesType)
			b = c.lenPrefixed(t, b, body)
		default:
			if !fd.IsList() {
				if seenSingular[num] {
					if c.Canonical {
						continue
					}
					c.label("singular-scalar-repeated(last-wins)")
				}
				seenSingular[num] = true
			}
			if fd.ContainingOneof() != nil {
				c.label("oneof-member")
			}
			b = c.tag(t, b, num, wireTypeOf(fd.Kind()))
			b = c.scalarPayload(t, b, fd)
		}
	}
	return b
}

func (c *StreamCfg) mapEntry(t *rapid.T, fd protoreflect.FieldDescriptor, depth int) []byte {
	kfd, vfd := fd.MapKey(), fd.MapValue()
	var body []byte
	// a record of a number the entry does not declare may sit anywhere in it:
	// before, between or after key and value
	unkAt := -1
	if !c.Canonical && c.Unknown && rapid.IntRange(0, 9).Draw(t, "entryunk") == 0 {
		unkAt = rapid.IntRange(0, 2).Draw(t, "entryunkpos")
	}
	pos := 0
	foreign := func() {
		if unkAt == pos {
			c.label("entry-unknown-field")
			body = c.unknownRecordNum(t, body, protowire.Number(rapid.IntRange(3, 40).Draw(t, "entryunknum")), 0)
			unkAt = -1
		}
		pos++
	}
	key := func() {
		foreign()
		body = c.tag(t, body, 1, wireTypeOf(kfd.Kind()))
		if c.keyCluster != 0 && !c.Canonical && (kfd.Kind() == protoreflect.Int64Kind || kfd.Kind() == protoreflect.Uint64Kind || kfd.Kind() == protoreflect.Fixed64Kind || kfd.Kind() == protoreflect.Sfixed64Kind || kfd.Kind() == protoreflect.Sint64Kind) {
			// keys of one burst huddle together far above 2^53
			v := c.keyCluster + uint64(rapid.IntRange(0, 9).Draw(t, "clusterkey"))
			switch kfd.Kind() {
			case protoreflect.Fixed64Kind, protoreflect.Sfixed64Kind:
				body = protowire.AppendFixed64(body, v)
			case protoreflect.Sint64Kind:
				body = protowire.AppendVarint(body, protowire.EncodeZigZag(int64(v)))
			default:
				body = protowire.AppendVarint(body, v)
			}
			return
		}
		if c.StrCluster != "" && kfd.Kind() == protoreflect.StringKind {
			c.label("string-key-cluster")
			body = c.lenPrefixed(t, body, []byte(c.StrCluster+rapid.SampledFrom(orderRunes).Draw(t, "clusterrune")))
			return
		}
		body = c.scalarPayload(t, body, kfd)
	}
	val := func() {
		foreign()
		body = c.tag(t, body, 2, wireTypeOf(vfd.Kind()))
		if vfd.Message() != nil {
			body = c.lenPrefixed(t, body, c.GenStream(t, vfd.Message(), depth+1))
		} else {
			body = c.scalarPayload(t, body, vfd)
		}
	}
	shape := 0
	if !c.Canonical {
		shape = rapid.IntRange(0, 11).Draw(t, "entryshape")
	}
	msgVal := vfd.Message() != nil
	if (shape == 8 || shape == 11) && msgVal && c.Avoid["map_entry_missing_msg_value"] {
		c.excluded("map entry without value for a message-valued map")
		shape = 0
	}
	// shape 10 with a message value: the value record occurs twice in one entry. The
	// statement's summary says "last value"; its oracle, the reference decoder,
	// merges the occurrences (a map entry is a message with a singular value
	// field). This shape was excluded as ambiguous until the generated decoder
	// was repaired to merge as well.
	if (shape == 9 || shape == 10) && c.Avoid["map_entry_dup_scalar"] {
		c.excluded("duplicated scalar key/value inside one map entry")
		shape = 0
	}
	switch shape {
	default: // key, value
		key()
		val()
	case 6:
		c.label("entry-value-before-key")
		val()
		key()
	case 7:
		c.label("entry-missing-key")
		val()
	case 8:
		c.label("entry-missing-value")
		key()
	case 9:
		c.label("entry-duplicate-key")
		key()
		val()
		key()
	case 10:
		c.label("entry-duplicate-value")
		key()
		val()
		val()
	case 11:
		c.label("entry-empty")
	}
	pos = 2
	foreign() // after everything else, if drawn so (or if key / value were not emitted)
	if unkAt >= 0 {
		c.label("entry-unknown-field")
		body = c.unknownRecordNum(t, body, protowire.Number(rapid.IntRange(3, 40).Draw(t, "entryunknum")), 0)
	}
	return body
}

// unknownNumber draws a field number that md does not declare.
func unknownNumber(t *rapid.T, md protoreflect.MessageDescriptor) protowire.Number {
	g := rapid.OneOf(rapid.IntRange(1, 64), rapid.SampledFrom([]int{15, 16, 2047, 2048, 262143, 262144, 33554431, 33554432, 536870911, 18999, 19000, 19001, 19500, 19999, 20000}), rapid.IntRange(1, 536870911))
	for i := 0; ; i++ {
		n := protowire.Number(g.Draw(t, "unknum"))
		if md.Fields().ByNumber(n) == nil {
			return n
		}
		if i > 50 {
			// dense schema: scan upwards
			for n = 1; md.Fields().ByNumber(n) != nil; n++ {
			}
			return n
		}
	}
}

// UnknownRecordNum appends one record (any wire type, possibly a group) with
// the given field number.
func (c *StreamCfg) UnknownRecordNum(t *rapid.T, b []byte, num protowire.Number) []byte {
	return c.unknownRecordNum(t, b, num, 0)
}

// UnknownRecord appends one unknown record for md.
func (c *StreamCfg) UnknownRecord(t *rapid.T, b []byte, md protoreflect.MessageDescriptor) []byte {
	return c.unknownRecord(t, b, md, 0)
}

func (c *StreamCfg) unknownRecord(t *rapid.T, b []byte, md protoreflect.MessageDescriptor, gdepth int) []byte {
	num := unknownNumber(t, md)
	// Padded tags on unknown records only where every implementation keeps the
	// raw bytes: nodes that are not google.protobuf.* messages (protobuf-go's
	// table decoder, used for the well-known types, re-encodes the tag).
	if !c.Canonical && gdepth == 0 && !strings.HasPrefix(string(md.FullName()), "google.protobuf.") && rapid.IntRange(0, 9).Draw(t, "padunktag") == 0 {
		typ := protowire.Type(rapid.SampledFrom([]int{0, 1, 2, 5, 3}).Draw(t, "padunktype"))
		v := protowire.EncodeTag(num, typ)
		c.label("unknown-record-with-padded-tag")
		b = appendVarintPadded(b, v, protowire.SizeVarint(v)+rapid.IntRange(1, 2).Draw(t, "padunklen"))
		switch typ {
		case protowire.StartGroupType:
			// the end tag's width is drawn on its own: shorter or longer than the start tag's
			c.label("unknown-group-with-padded-tags")
			for i, n := 0, rapid.IntRange(0, 2).Draw(t, "padgrouplen"); i < n; i++ {
				b = c.unknownRecordNum(t, b, protowire.Number(rapid.IntRange(1, 3000).Draw(t, "grpnum")), gdepth+1)
			}
			e := protowire.EncodeTag(num, protowire.EndGroupType)
			return appendVarintPadded(b, e, protowire.SizeVarint(e)+rapid.IntRange(0, 3).Draw(t, "padendlen"))
		case protowire.VarintType:
			return c.varint(t, b, genU64.Draw(t, "unkv"))
		case protowire.Fixed32Type:
			return protowire.AppendFixed32(b, rapid.Uint32().Draw(t, "unk32"))
		case protowire.Fixed64Type:
			return protowire.AppendFixed64(b, rapid.Uint64().Draw(t, "unk64"))
		default:
			return c.lenPrefixed(t, b, genBytes.Draw(t, "unkb"))
		}
	}
	return c.unknownRecordNum(t, b, num, gdepth)
}

// Tags of unknown records are always minimal: protobuf-go's table-driven
// decoder (used for nested well-known types) re-encodes the tag of an unknown
// record while dynamicpb keeps the raw bytes, so the references disagree on
// padded tags there; padded tags are exercised on known fields instead.
func (c *StreamCfg) unknownRecordNum(t *rapid.T, b []byte, num protowire.Number, gdepth int) []byte {
	kind := rapid.IntRange(0, 4).Draw(t, "unktype")
	if kind == 4 && gdepth >= 3 {
		kind = 0
	}
	switch kind {
	case 0:
		c.label("unknown-varint")
		b = protowire.AppendTag(b, num, protowire.VarintType)
		return c.varint(t, b, genU64.Draw(t, "unkv"))
	case 1:
		c.label("unknown-fixed32")
		b = protowire.AppendTag(b, num, protowire.Fixed32Type)
		return protowire.AppendFixed32(b, rapid.Uint32().Draw(t, "unk32"))
	case 2:
		c.label("unknown-fixed64")
		b = protowire.AppendTag(b, num, protowire.Fixed64Type)
		return protowire.AppendFixed64(b, rapid.Uint64().Draw(t, "unk64"))
	case 3:
		c.label("unknown-bytes")
		b = protowire.AppendTag(b, num, protowire.BytesType)
		return c.lenPrefixed(t, b, genBytes.Draw(t, "unkb"))
	default:
		if gdepth > 0 {
			c.label("unknown-nested-group")
		} else {
			c.label("unknown-group")
		}
		if gdepth == 0 && rapid.IntRange(0, 25).Draw(t, "deepgroup") == 0 {
			// a chain of nested groups, each level with its own field number
			c.label("unknown-deep-group-chain")
			depth := rapid.IntRange(4, 48).Draw(t, "chaindepth")
			nums := []protowire.Number{num}
			for i := 1; i < depth; i++ {
				nums = append(nums, protowire.Number(rapid.IntRange(1, 200).Draw(t, "chainnum")))
			}
			for _, n := range nums {
				b = protowire.AppendTag(b, n, protowire.StartGroupType)
			}
			for i := len(nums) - 1; i >= 0; i-- {
				b = protowire.AppendTag(b, nums[i], protowire.EndGroupType)
			}
			return b
		}
		b = protowire.AppendTag(b, num, protowire.StartGroupType)
		n := rapid.IntRange(0, 3).Draw(t, "grouplen")
		for i := 0; i < n; i++ {
			b = c.unknownRecordNum(t, b, protowire.Number(rapid.IntRange(1, 3000).Draw(t, "grpnum")), gdepth+1)
		}
		return protowire.AppendTag(b, num, protowire.EndGroupType)
	}
}

var mapishCache = map[protoreflect.FullName][]protoreflect.FieldDescriptor{}

// ContainsMap reports whether md declares a map field, directly or through
// message-typed fields.
func ContainsMap(md protoreflect.MessageDescriptor) bool {
	return containsMap(md, map[protoreflect.FullName]bool{})
}

func containsMap(md protoreflect.MessageDescriptor, seen map[protoreflect.FullName]bool) bool {
	if seen[md.FullName()] {
		return false
	}
	seen[md.FullName()] = true
	fds := md.Fields()
	for i := 0; i < fds.Len(); i++ {
		fd := fds.Get(i)
		if fd.IsMap() {
			return true
		}
		if fd.Message() != nil && containsMap(fd.Message(), seen) {
			return true
		}
	}
	return false
}

// mapish lists the fields of md that are maps or lead to maps.
func mapish(md protoreflect.MessageDescriptor) []protoreflect.FieldDescriptor {
	if v, ok := mapishCache[md.FullName()]; ok {
		return v
	}
	var out []protoreflect.FieldDescriptor
	fds := md.Fields()
	for i := 0; i < fds.Len(); i++ {
		fd := fds.Get(i)
		if fd.IsMap() || (fd.Message() != nil && ContainsMap(fd.Message())) {
			out = append(out, fd)
		}
	}
	mapishCache[md.FullName()] = out
	return out
}

// DrawScalarPayload draws the canonical wire payload (no tag) of one scalar
// value for fd's kind (enum: any int32). The payload is the serialisable form
// of the value; DecodeScalar turns it back into a protoreflect.Value.
func DrawScalarPayload(t *rapid.T, fd protoreflect.FieldDescriptor) []byte {
	c := &StreamCfg{Canonical: true}
	return c.scalarPayload(t, nil, fd)
}

// DecodeScalar decodes a payload produced by DrawScalarPayload.
func DecodeScalar(fd protoreflect.FieldDescriptor, b []byte) protoreflect.Value {
	switch fd.Kind() {
	case protoreflect.BoolKind:
		v, _ := protowire.ConsumeVarint(b)
		return protoreflect.ValueOfBool(v != 0)
	case protoreflect.EnumKind:
		v, _ := protowire.ConsumeVarint(b)
		return protoreflect.ValueOfEnum(protoreflect.EnumNumber(int32(v)))
	case protoreflect.Int32Kind:
		v, _ := protowire.ConsumeVarint(b)
		return protoreflect.ValueOfInt32(int32(v))
	case protoreflect.Sint32Kind:
		v, _ := protowire.ConsumeVarint(b)
		return protoreflect.ValueOfInt32(int32(protowire.DecodeZigZag(v & math.MaxUint32)))
	case protoreflect.Uint32Kind:
		v, _ := protowire.ConsumeVarint(b)
		return protoreflect.ValueOfUint32(uint32(v))
	case protoreflect.Int64Kind:
		v, _ := protowire.ConsumeVarint(b)
		return protoreflect.ValueOfInt64(int64(v))
	case protoreflect.Sint64Kind:
		v, _ := protowire.ConsumeVarint(b)
		return protoreflect.ValueOfInt64(protowire.DecodeZigZag(v))
	case protoreflect.Uint64Kind:
		v, _ := protowire.ConsumeVarint(b)
		return protoreflect.ValueOfUint64(v)
	case protoreflect.Sfixed32Kind:
		v, _ := protowire.ConsumeFixed32(b)
		return protoreflect.ValueOfInt32(int32(v))
	case protoreflect.Fixed32Kind:
		v, _ := protowire.ConsumeFixed32(b)
		return protoreflect.ValueOfUint32(v)
	case protoreflect.FloatKind:
		v, _ := protowire.ConsumeFixed32(b)
		return protoreflect.ValueOfFloat32(math.Float32frombits(v))
	case protoreflect.Sfixed64Kind:
		v, _ := protowire.ConsumeFixed64(b)
		return protoreflect.ValueOfInt64(int64(v))
	case protoreflect.Fixed64Kind:
		v, _ := protowire.ConsumeFixed64(b)
		return protoreflect.ValueOfUint64(v)
	case protoreflect.DoubleKind:
		v, _ := protowire.ConsumeFixed64(b)
		return protoreflect.ValueOfFloat64(math.Float64frombits(v))
	case protoreflect.StringKind:
		v, _ := protowire.ConsumeBytes(b)
		return protoreflect.ValueOfString(string(v))
	case protoreflect.BytesKind:
		v, _ := protowire.ConsumeBytes(b)
		return protoreflect.ValueOfBytes(append([]byte{}, v...))
	}
	panic("DecodeScalar: " + fd.Kind().String())
}

// CanonValue renders one scalar value canonically.
func CanonValue(fd protoreflect.FieldDescriptor, v protoreflect.Value) string {
	var b strings.Builder
	canonVal(&b, fd, v, Same, 0)
	return b.String()
}

// oneListRecord appends one record (packed run, unpacked element or nested
// message) for the repeated field fd.
func (c *StreamCfg) oneListRecord(t *rapid.T, b []byte, fd protoreflect.FieldDescriptor, depth int) []byte {
	num := fd.Number()
	switch {
	case fd.Message() != nil:
		if depth >= c.MaxDepth {
			return b
		}
		sub := &StreamCfg{MaxRecords: 2, MaxDepth: c.MaxDepth, Unknown: c.Unknown, Canonical: c.Canonical, Avoid: c.Avoid, Excluded: c.Excluded, Labels: c.Labels}
		body := sub.GenStream(t, fd.Message(), depth+1)
		b = c.tag(t, b, num, protowire.BytesType)
		return c.lenPrefixed(t, b, body)
	case fd.Kind() == protoreflect.StringKind || fd.Kind() == protoreflect.BytesKind:
		b = c.tag(t, b, num, protowire.BytesType)
		return c.scalarPayload(t, b, fd)
	case rapid.Bool().Draw(t, "packed"):
		var body []byte
		for j, n := 0, rapid.IntRange(0, 3).Draw(t, "runlen"); j < n; j++ {
			body = c.scalarPayload(t, body, fd)
		}
		b = c.tag(t, b, num, protowire.BytesType)
		return c.lenPrefixed(t, b, body)
	default:
		b = c.tag(t, b, num, wireTypeOf(fd.Kind()))
		return c.scalarPayload(t, b, fd)
	}
}
