package model

import (
	"encoding/hex"
	"fmt"
	"math"
	"sort"
	"strconv"
	"strings"

	"google.golang.org/protobuf/reflect/protoreflect"
)

// Canon renders the state of m as a canonical string: populated fields in
// number order (by Has, not Range), floats by bit pattern, maps sorted by key,
// unknown bytes in hex, message presence preserved, nil == empty for
// lists/maps/bytes (that is the protobuf data model). Two messages are equal in
// the sense of the properties iff their Canon strings are equal.
func Canon(m protoreflect.Message, view Viewer) string {
	var b strings.Builder
	canonMsg(&b, view(m), view, 0)
	return b.String()
}

func canonMsg(b *strings.Builder, m protoreflect.Message, view Viewer, depth int) {
	if depth > 200 {
		b.WriteString("<deep>")
		return
	}
	b.WriteString("{")
	fds := m.Descriptor().Fields()
	idx := make([]int, fds.Len())
	for i := range idx {
		idx[i] = i
	}
	sort.Slice(idx, func(i, j int) bool { return fds.Get(idx[i]).Number() < fds.Get(idx[j]).Number() })
	for _, i := range idx {
		fd := fds.Get(i)
		if !m.Has(fd) {
			continue
		}
		fmt.Fprintf(b, "%d:", fd.Number())
		v := m.Get(fd)
		switch {
		case fd.IsList():
			l := v.List()
			b.WriteString("[")
			for j := 0; j < l.Len(); j++ {
				if j > 0 {
					b.WriteString(",")
				}
				canonVal(b, fd, l.Get(j), view, depth)
			}
			b.WriteString("]")
		case fd.IsMap():
			type kv struct {
				k string
				v protoreflect.Value
			}
			var kvs []kv
			v.Map().Range(func(k protoreflect.MapKey, mv protoreflect.Value) bool {
				var kb strings.Builder
				canonVal(&kb, fd.MapKey(), k.Value(), view, depth)
				kvs = append(kvs, kv{kb.String(), mv})
				return true
			})
			sort.Slice(kvs, func(i, j int) bool { return kvs[i].k < kvs[j].k })
			b.WriteString("<")
			for j, e := range kvs {
				if j > 0 {
					b.WriteString(",")
				}
				b.WriteString(e.k)
				b.WriteString("=")
				canonVal(b, fd.MapValue(), e.v, view, depth)
			}
			b.WriteString(">")
		default:
			canonVal(b, fd, v, view, depth)
		}
		b.WriteString(";")
	}
	if u := m.GetUnknown(); len(u) > 0 {
		b.WriteString("?")
		b.WriteString(hex.EncodeToString(u))
	}
	b.WriteString("}")
}

func canonVal(b *strings.Builder, fd protoreflect.FieldDescriptor, v protoreflect.Value, view Viewer, depth int) {
	switch fd.Kind() {
	case protoreflect.BoolKind:
		if v.Bool() {
			b.WriteString("T")
		} else {
			b.WriteString("F")
		}
	case protoreflect.EnumKind:
		b.WriteString("e" + strconv.FormatInt(int64(v.Enum()), 10))
	case protoreflect.Int32Kind, protoreflect.Sint32Kind, protoreflect.Sfixed32Kind,
		protoreflect.Int64Kind, protoreflect.Sint64Kind, protoreflect.Sfixed64Kind:
		b.WriteString(strconv.FormatInt(v.Int(), 10))
	case protoreflect.Uint32Kind, protoreflect.Fixed32Kind, protoreflect.Uint64Kind, protoreflect.Fixed64Kind:
		b.WriteString("u" + strconv.FormatUint(v.Uint(), 10))
	case protoreflect.FloatKind:
		fmt.Fprintf(b, "f%08x", math.Float32bits(float32(v.Float())))
	case protoreflect.DoubleKind:
		fmt.Fprintf(b, "d%016x", math.Float64bits(v.Float()))
	case protoreflect.StringKind:
		b.WriteString(strconv.Quote(v.String()))
	case protoreflect.BytesKind:
		b.WriteString("x" + hex.EncodeToString(v.Bytes()))
	case protoreflect.MessageKind, protoreflect.GroupKind:
		canonMsg(b, view(v.Message()), view, depth+1)
	}
}

// Depth returns the nesting depth of populated message values in m (0 = no
// populated message-typed field).
func Depth(m protoreflect.Message) int {
	d := 0
	m.Range(func(fd protoreflect.FieldDescriptor, v protoreflect.Value) bool {
		sub := func(mm protoreflect.Message) {
			if x := 1 + Depth(mm); x > d {
				d = x
			}
		}
		switch {
		case fd.IsList() && fd.Message() != nil:
			l := v.List()
			for i := 0; i < l.Len(); i++ {
				sub(l.Get(i).Message())
			}
		case fd.IsMap() && fd.MapValue().Message() != nil:
			v.Map().Range(func(_ protoreflect.MapKey, mv protoreflect.Value) bool { sub(mv.Message()); return true })
		case fd.Message() != nil && !fd.IsMap() && !fd.IsList():
			sub(v.Message())
		}
		return true
	})
	return d
}
