package model

import (
	"fmt"
	"reflect"
	"sort"
	"strings"

	"google.golang.org/protobuf/proto"
	"google.golang.org/protobuf/reflect/protoreflect"
)

// NilSite is a place in a generated struct where a nil can stand for an empty
// message: a list element, a map value, or the pointer inside a oneof wrapper.
type NilSite struct {
	Desc string
	set  func()
}

// NilSites enumerates, in a deterministic order, the sites of p (recursively)
// that currently hold a non-nil message pointer and could hold nil instead.
func NilSites(p proto.Message) []NilSite {
	var out []NilSite
	collectNilSites(reflect.ValueOf(p), "", &out, 0)
	return out
}

var bytesType = reflect.TypeOf([]byte(nil))

// flipBytes describes the site "an empty bytes value held the other way":
// nil becomes []byte{} and []byte{} becomes nil.
func flipBytes(desc string, isNil bool, set func(reflect.Value)) NilSite {
	if isNil {
		return NilSite{Desc: desc + "=empty-non-nil-bytes", set: func() { set(reflect.ValueOf([]byte{})) }}
	}
	return NilSite{Desc: desc + "=nil-bytes", set: func() { set(reflect.Zero(bytesType)) }}
}

var protoMessageType = reflect.TypeOf((*proto.Message)(nil)).Elem()

func isMsgPtr(t reflect.Type) bool {
	return t.Kind() == reflect.Ptr && t.Elem().Kind() == reflect.Struct && t.Implements(protoMessageType)
}

func collectNilSites(v reflect.Value, path string, out *[]NilSite, depth int) {
	if depth > 6 || v.Kind() != reflect.Ptr || v.IsNil() {
		return
	}
	if TypeOfGo(v.Type()) == nil {
		return // only generated structs are opened
	}
	s := v.Elem()
	st := s.Type()
	for i := 0; i < st.NumField(); i++ {
		f := st.Field(i)
		if f.PkgPath != "" { // unexported: state, sizeCache, unknownFields
			continue
		}
		fv := s.Field(i)
		p := path + "." + f.Name
		switch {
		case fv.Kind() == reflect.Slice && isMsgPtr(fv.Type().Elem()):
			for j := 0; j < fv.Len(); j++ {
				el := fv.Index(j)
				if el.IsNil() {
					continue
				}
				*out = append(*out, NilSite{Desc: fmt.Sprintf("%s[%d]=nil", p, j), set: func() { el.Set(reflect.Zero(el.Type())) }})
				collectNilSites(el, fmt.Sprintf("%s[%d]", p, j), out, depth+1)
			}
		case fv.Kind() == reflect.Map && isMsgPtr(fv.Type().Elem()):
			keys := fv.MapKeys()
			sort.Slice(keys, func(a, b int) bool { return fmt.Sprint(keys[a].Interface()) < fmt.Sprint(keys[b].Interface()) })
			for _, k := range keys {
				k := k
				mv := fv.MapIndex(k)
				if mv.IsNil() {
					continue
				}
				mp := fv
				*out = append(*out, NilSite{Desc: fmt.Sprintf("%s[%v]=nil", p, k.Interface()), set: func() { mp.SetMapIndex(k, reflect.Zero(mp.Type().Elem())) }})
				collectNilSites(mv, fmt.Sprintf("%s[%v]", p, k.Interface()), out, depth+1)
			}
		case fv.Kind() == reflect.Slice && fv.Type().Elem() == bytesType:
			// repeated bytes: an element that is empty may be held as nil or as []byte{}
			for j := 0; j < fv.Len(); j++ {
				el := fv.Index(j)
				if el.Len() == 0 {
					*out = append(*out, flipBytes(fmt.Sprintf("%s[%d]", p, j), el.IsNil(), func(v reflect.Value) { el.Set(v) }))
				}
			}
		case fv.Kind() == reflect.Map && fv.Type().Elem() == bytesType:
			keys := fv.MapKeys()
			sort.Slice(keys, func(a, b int) bool { return fmt.Sprint(keys[a].Interface()) < fmt.Sprint(keys[b].Interface()) })
			for _, k := range keys {
				k := k
				mv := fv.MapIndex(k)
				mp := fv
				if mv.Len() == 0 {
					*out = append(*out, flipBytes(fmt.Sprintf("%s[%v]", p, k.Interface()), mv.IsNil(), func(v reflect.Value) { mp.SetMapIndex(k, v) }))
				}
			}
		case fv.Kind() == reflect.Interface && !fv.IsNil():
			// oneof wrapper: *T_Member{Member: value}
			w := fv.Elem()
			if w.Kind() == reflect.Ptr && !w.IsNil() && w.Elem().Kind() == reflect.Struct && w.Elem().NumField() == 1 {
				inner := w.Elem().Field(0)
				if inner.Type() == bytesType && inner.Len() == 0 {
					// a set bytes member that is empty: nil and []byte{} are the same value
					*out = append(*out, flipBytes(p+".wrapper", inner.IsNil(), func(v reflect.Value) { inner.Set(v) }))
				}
				if isMsgPtr(inner.Type()) && !inner.IsNil() {
					*out = append(*out, NilSite{Desc: p + ".wrapper=nil-message", set: func() { inner.Set(reflect.Zero(inner.Type())) }})
					collectNilSites(inner, p, out, depth+1)
				}
			}
		case isMsgPtr(fv.Type()):
			collectNilSites(fv, p, out, depth+1)
		}
	}
}

// FlipEmptyBytes holds every empty bytes value (oneof member, list element,
// map value) the other way: nil <-> []byte{}. The message value is unchanged.
func FlipEmptyBytes(p proto.Message) int {
	n := 0
	for _, s := range NilSites(p) {
		if strings.HasSuffix(s.Desc, "bytes") {
			s.Apply()
			n++
		}
	}
	return n
}

// Apply sets the site to nil.
func (s NilSite) Apply() { s.set() }

// EmptySites enumerates unpopulated list/map/bytes fields of the top-level
// struct that can be given an empty-but-non-nil container.
func SetEmptyContainers(p proto.Message) int {
	n := 0
	setEmpty(reflect.ValueOf(p), &n, 0)
	return n
}

func setEmpty(v reflect.Value, n *int, depth int) {
	if depth > 6 || v.Kind() != reflect.Ptr || v.IsNil() || TypeOfGo(v.Type()) == nil {
		return
	}
	s := v.Elem()
	st := s.Type()
	for i := 0; i < st.NumField(); i++ {
		f := st.Field(i)
		if f.PkgPath != "" {
			continue
		}
		fv := s.Field(i)
		switch fv.Kind() {
		case reflect.Slice:
			if fv.IsNil() {
				fv.Set(reflect.MakeSlice(fv.Type(), 0, 0))
				*n++
			} else if isMsgPtr(fv.Type().Elem()) {
				for j := 0; j < fv.Len(); j++ {
					setEmpty(fv.Index(j), n, depth+1)
				}
			}
		case reflect.Map:
			if fv.IsNil() {
				fv.Set(reflect.MakeMap(fv.Type()))
				*n++
			} else if isMsgPtr(fv.Type().Elem()) {
				for _, k := range fv.MapKeys() {
					setEmpty(fv.MapIndex(k), n, depth+1)
				}
			}
		case reflect.Ptr:
			if isMsgPtr(fv.Type()) {
				setEmpty(fv, n, depth+1)
			}
		}
	}
}

// SetTypedNilWrappers puts a typed-nil wrapper pointer, e.g. (*T_Member)(nil),
// into every oneof field of p (recursively) that is currently nil. protobuf-go
// reads such a field as "oneof not set", so the message value is unchanged.
func SetTypedNilWrappers(p proto.Message) int {
	n := 0
	typedNil(reflect.ValueOf(p), &n, 0)
	return n
}

func typedNil(v reflect.Value, n *int, depth int) {
	if depth > 6 || v.Kind() != reflect.Ptr || v.IsNil() {
		return
	}
	t := TypeOfGo(v.Type())
	if t == nil {
		return
	}
	s := v.Elem()
	st := s.Type()
	for i := 0; i < st.NumField(); i++ {
		f := st.Field(i)
		if f.PkgPath != "" {
			continue
		}
		fv := s.Field(i)
		switch {
		case fv.Kind() == reflect.Interface && fv.IsNil():
			for _, w := range t.MI.OneofWrappers {
				wt := reflect.TypeOf(w)
				if wt.Implements(fv.Type()) {
					fv.Set(reflect.Zero(wt))
					*n++
					break
				}
			}
		case isMsgPtr(fv.Type()):
			typedNil(fv, n, depth+1)
		case fv.Kind() == reflect.Slice && isMsgPtr(fv.Type().Elem()):
			for j := 0; j < fv.Len(); j++ {
				typedNil(fv.Index(j), n, depth+1)
			}
		}
	}
}

// NilEmptyMessages replaces every EMPTY message held as a list element or as a
// map value (at any depth of generated structs) by a nil pointer: the message
// value stays the same (nil reads as an empty message), its Go representation
// is the one a hand-written literal such as map[string]*T{"k": nil} has.
func NilEmptyMessages(p proto.Message) int {
	n := 0
	nilEmpty(reflect.ValueOf(p), &n, 0)
	return n
}

func emptyMsg(v reflect.Value) bool {
	m, ok := v.Interface().(proto.Message)
	if !ok {
		return false
	}
	r := Impl(m.ProtoReflect())
	empty := true
	r.Range(func(protoreflect.FieldDescriptor, protoreflect.Value) bool { empty = false; return false })
	return empty && len(r.GetUnknown()) == 0
}

func nilEmpty(v reflect.Value, n *int, depth int) {
	if depth > 6 || v.Kind() != reflect.Ptr || v.IsNil() || TypeOfGo(v.Type()) == nil {
		return
	}
	s := v.Elem()
	st := s.Type()
	for i := 0; i < st.NumField(); i++ {
		if st.Field(i).PkgPath != "" {
			continue
		}
		fv := s.Field(i)
		switch {
		case fv.Kind() == reflect.Slice && isMsgPtr(fv.Type().Elem()):
			for j := 0; j < fv.Len(); j++ {
				if el := fv.Index(j); !el.IsNil() {
					if emptyMsg(el) {
						el.Set(reflect.Zero(el.Type()))
						*n++
					} else {
						nilEmpty(el, n, depth+1)
					}
				}
			}
		case fv.Kind() == reflect.Map && isMsgPtr(fv.Type().Elem()):
			for _, k := range fv.MapKeys() {
				if mv := fv.MapIndex(k); !mv.IsNil() {
					if emptyMsg(mv) {
						fv.SetMapIndex(k, reflect.Zero(fv.Type().Elem()))
						*n++
					} else {
						nilEmpty(mv, n, depth+1)
					}
				}
			}
		case isMsgPtr(fv.Type()):
			nilEmpty(fv, n, depth+1)
		case fv.Kind() == reflect.Interface && !fv.IsNil():
			if w := fv.Elem(); w.Kind() == reflect.Ptr && !w.IsNil() && w.Elem().Kind() == reflect.Struct && w.Elem().NumField() == 1 && isMsgPtr(w.Elem().Field(0).Type()) {
				nilEmpty(w.Elem().Field(0), n, depth+1)
			}
		}
	}
}

// AddStaleCapacity re-allocates every list of the generated struct (at any
// depth) with spare capacity that holds STALE content - copies of the list's own
// first elements - beyond its length, as plain re-slicing (m.List = m.List[:n])
// leaves behind. The message value is unchanged.
func AddStaleCapacity(p proto.Message) int {
	n := 0
	staleCap(reflect.ValueOf(p), &n, 0)
	return n
}

func staleCap(v reflect.Value, n *int, depth int) {
	if depth > 6 || v.Kind() != reflect.Ptr || v.IsNil() || TypeOfGo(v.Type()) == nil {
		return
	}
	s := v.Elem()
	st := s.Type()
	for i := 0; i < st.NumField(); i++ {
		if st.Field(i).PkgPath != "" {
			continue
		}
		fv := s.Field(i)
		switch {
		case fv.Kind() == reflect.Slice && fv.Type() != bytesType && fv.Len() > 0:
			l := fv.Len()
			ns := reflect.MakeSlice(fv.Type(), l+3, l+3)
			reflect.Copy(ns, fv)
			for k := 0; k < 3; k++ {
				src := fv.Index(k % l)
				if isMsgPtr(fv.Type().Elem()) && !src.IsNil() {
					ns.Index(l + k).Set(reflect.ValueOf(proto.Clone(src.Interface().(proto.Message))))
				} else {
					ns.Index(l + k).Set(src)
				}
			}
			fv.Set(ns.Slice(0, l))
			*n++
			if isMsgPtr(fv.Type().Elem()) {
				for j := 0; j < l; j++ {
					staleCap(fv.Index(j), n, depth+1)
				}
			}
		case fv.Kind() == reflect.Map && isMsgPtr(fv.Type().Elem()):
			for _, k := range fv.MapKeys() {
				staleCap(fv.MapIndex(k), n, depth+1)
			}
		case isMsgPtr(fv.Type()):
			staleCap(fv, n, depth+1)
		case fv.Kind() == reflect.Interface && !fv.IsNil():
			if w := fv.Elem(); w.Kind() == reflect.Ptr && !w.IsNil() && w.Elem().Kind() == reflect.Struct && w.Elem().NumField() == 1 && isMsgPtr(w.Elem().Field(0).Type()) {
				staleCap(w.Elem().Field(0), n, depth+1)
			}
		}
	}
}
