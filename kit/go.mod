module verif/kit

go 1.23

toolchain go1.23.5

require (
	github.com/cosmos/cosmos-proto v0.0.0
	google.golang.org/protobuf v1.34.0
	pgregory.net/rapid v1.3.0
)

require (
	github.com/google/go-cmp v0.6.0 // indirect
	gotest.tools/v3 v3.5.1 // indirect
)

replace github.com/cosmos/cosmos-proto => /repo
